package sim

import (
	"encoding/hex"
	"fmt"
	"strings"

	sio "github.com/pip-services3-gox/pip-services3-expressions-gox/io"
)

// C11 – the string scanner is a faithful cursor with position-only line/column.
// History check against an executable cursor model (DESIGN §4.3). No faults
// exist at this surface.

type propC11 struct{}

func init() { Register(propC11{}) }

func (propC11) ID() string { return "C11" }

// ordinary characters, LF, CR (twice: break-heavy), and runes that a byte- or
// table-driven classifier could confuse with them (low byte 0x0A / 0x0D / 0x00,
// other Unicode line separators)
var c11Alphabet = []rune{'a', 'b', '\n', '\r', '\n', '\r', 'é', 0x1F600, 0x010A, 0x010D, 0x1F60A, 0xFF0D, 0x2028, 0x0085, 0x000B, 0x0100}

// content lengths around typical block sizes
var c11BlockLens = []int{255, 256, 257, 1023, 1024, 1025, 1026, 1100, 2047, 2048, 2049, 2500}

func (propC11) Gen(r *Rand) *Plan {
	size := r.Size()
	n := r.Range(0, 12*size)
	if r.Bool(0.1) {
		n = r.Range(0, 2)
	}
	huge := r.Bool(0.01 * float64(Scale))
	if huge {
		n = c11BlockLens[r.Intn(len(c11BlockLens))]
	}
	content := make([]rune, n)
	for i := range content {
		content[i] = r.PickRune(c11Alphabet)
		if huge && r.Bool(0.6) {
			content[i] = r.PickRune([]rune{'\n', '\r', 'a'}) // dense in line breaks
		}
	}
	stride := r.ObsStride()
	var ops []Op
	nops := r.Range(1, 40*size)
	if huge {
		nops = r.Range(20, 60)
	}
	cfg := map[string]string{"obs": fmt.Sprint(stride)}
	text := string(content)
	switch {
	case r.Bool(0.03):
		// content given as bytes, not all of them well-formed UTF-8 (a string is a byte sequence)
		raw := make([]byte, 0, 16)
		withValid := r.Bool(0.5)
		for i, m := 0, r.Range(1, 10); i < m; i++ {
			switch r.Intn(7) {
			case 0:
				raw = append(raw, 0xC3) // a lead byte without continuation
			case 1:
				raw = append(raw, 0xFF)
			case 2:
				raw = append(raw, 0x80) // a stray continuation byte
			case 3:
				raw = append(raw, '\n')
			case 4:
				if withValid {
					raw = append(raw, "é"...)
				} else {
					raw = append(raw, 'e')
				}
			default:
				raw = append(raw, byte('a'+r.Intn(3)))
			}
		}
		cfg["hex"] = "1"
		text = hex.EncodeToString(raw)
		n = len([]rune(string(raw)))
	case r.Bool(0.0007 * float64(Scale)):
		// one very wide line (around 2^16 columns), a break, a short tail
		w := r.PickInt([]int{65535, 65536, 65537, 70000})
		text = strings.Repeat("a", w) + r.Pick([]string{"\n", "\r", "\r\n"}) + "bc\nd"
		n = len([]rune(text))
		ops = nil
		ops = append(ops, Op{Op: "readn", I: w + r.Range(0, 3)})
		nops = r.Range(4, 14)
	}
	// biased phases
	phase := r.Intn(4)
	for len(ops) < nops {
		if r.Bool(0.15) {
			phase = r.Intn(4)
		}
		var w []int // read unread unreadmany peek peekline peekcol line col reset
		switch phase {
		case 0: // read towards and past the end
			w = []int{12, 1, 1, 2, 1, 1, 1, 1, 0}
		case 1: // unread towards and past the start
			w = []int{2, 10, 3, 1, 1, 1, 1, 1, 1}
		case 2: // alternate
			w = []int{6, 6, 2, 2, 2, 2, 1, 1, 1}
		default:
			w = []int{3, 3, 2, 3, 3, 3, 2, 2, 2}
		}
		if stride > 1 {
			// sparse observation: the history itself contains no position queries either
			w[3], w[4], w[5], w[6], w[7] = 0, 0, 0, 0, 0
		}
		names := []string{"read", "unread", "unreadmany", "peek", "peekline", "peekcol", "line", "col", "reset"}
		op := Op{Op: names[r.Weighted(w)]}
		if op.Op == "unreadmany" {
			op.I = r.Range(0, n+3)
			if huge {
				op.I = r.Range(0, 40)
			}
		}
		if huge && op.Op == "read" && r.Bool(0.3) {
			op = Op{Op: "readn", I: r.Range(1, n+2)} // get deep into a long content quickly
		}
		ops = append(ops, op)
	}
	return &Plan{Config: cfg, Tasks: []TaskPlan{{Text: text, Ops: ops}}}
}

func c11Kclass(k, n int) string {
	switch {
	case k == 0:
		return "start"
	case k == n+1:
		return "endslot"
	case k == n:
		return "end"
	}
	return "mid"
}

func c11CharClass(content []rune, i int) string {
	if i < 0 || i >= len(content) {
		return "eof"
	}
	ch := content[i]
	prev, next := rune(-1), rune(-1)
	if i > 0 {
		prev = content[i-1]
	}
	if i+1 < len(content) {
		next = content[i+1]
	}
	switch ch {
	case '\n':
		return "LF"
	case '\r':
		if next == '\n' {
			return "CR-before-LF"
		}
		if prev == '\n' {
			return "CR-after-LF"
		}
		return "CR"
	}
	return "char"
}

func (propC11) Exec(p *Plan, x *Ctx) *Outcome {
	out := NewOutcome()
	if len(p.Tasks) == 0 {
		return out
	}
	tp := p.Tasks[0]
	if p.Cfg("hex", "") == "1" {
		if raw, err := hex.DecodeString(tp.Text); err == nil {
			tp.Text = string(raw) // may be ill-formed UTF-8; the characters are what Go's conversion to runes gives
		}
	}
	content := []rune(tp.Text)
	n := len(content)
	// the step budget of one operation grows with the content: UnreadMany over thousands of characters
	// legitimately rescans the content many times
	run := NewRun(DefaultStepBudget + 3000*int64(n))
	stateChanging := 0
	body := func() {
		s := sio.NewStringScanner(tp.Text)
		k := 0
		// forward(k): line/column a fresh scanner reports after k reads
		forward := func(k int) (int, int) {
			f := sio.NewStringScanner(tp.Text)
			for i := 0; i < k; i++ {
				if i%1024 == 0 {
					run.ResetOpSteps() // every Read is an operation of its own for the step budget
				}
				f.Read()
			}
			run.ResetOpSteps()
			return f.Line(), f.Column()
		}
		modelAt := func(k int) rune {
			if k < n {
				return content[k]
			}
			return -1
		}
		check := func(i int, op string, crossed string) {
			l, c := s.Line(), s.Column()
			fl, fc := forward(k)
			out.State(contentClass(content), k, l, c)
			if l != fl || c != fc {
				out.Violate("position-only", fmt.Sprintf("C11/position-only/%s/%s/%s", op, c11Kclass(k, n), crossed),
					"op %d (%s): at cursor %d of %q Line/Column = %d/%d, a fresh forward scan reports %d/%d", i, op, k, tp.Text, l, c, fl, fc)
			}
		}
		decoyText := "decoy\r\n" + strings.Repeat("#", (len(tp.Ops)*7)%300) + "\n!"
		stride := p.Stride()
		for i, o := range tp.Ops {
			run.ResetOpSteps()
			crossed := "-"
			observe := Observe(stride, i, len(tp.Ops))
			if i%3 == 1 {
				// another scanner over other content is constructed and used while this one is alive:
				// instances must not share their content or position
				d := sio.NewStringScanner(decoyText)
				for j := 0; j < 1+i%5; j++ {
					d.Read()
				}
				d.Unread()
			}
			switch o.Op {
			case "readn":
				bad := false
				for j := 0; j < o.I && !bad; j++ {
					if j%1024 == 0 {
						run.ResetOpSteps()
					}
					got := s.Read()
					want := modelAt(k)
					if k <= n {
						k++
					}
					if got != want {
						out.Violate("cursor-model", fmt.Sprintf("C11/read-value/%s", c11Kclass(k-1, n)),
							"op %d: bulk Read number %d at cursor %d of a %d-character content returned %d, model says %d", i, j, k-1, n, got, want)
						bad = true
					}
				}
				if bad {
					return
				}
				crossed = "many"
				stateChanging++
			case "read":
				pl, pc := 0, 0
				if observe {
					pl, pc = s.PeekLine(), s.PeekColumn()
				}
				got := s.Read()
				want := modelAt(k)
				crossed = c11CharClass(content, k)
				kBefore := k
				if k <= n {
					k++
				}
				if got != want {
					out.Violate("cursor-model", fmt.Sprintf("C11/read-value/%s", c11Kclass(kBefore, n)),
						"op %d: Read at cursor %d of %q returned %d, model says %d", i, kBefore, tp.Text, got, want)
					// resynchronise impossible: stop comparing this history
					out.Event("desync")
					return
				}
				if !observe {
					// no position queries around this Read
				} else if l, c := s.Line(), s.Column(); l != pl || c != pc {
					out.Violate("peek-consistency", fmt.Sprintf("C11/peek-consistency/%s/%s", c11Kclass(kBefore, n), crossed),
						"op %d: at cursor %d of %q PeekLine/PeekColumn = %d/%d but after the next Read Line/Column = %d/%d", i, kBefore, tp.Text, pl, pc, l, c)
				}
				if kBefore == n {
					out.Probes["read_end_slot"]++
				}
				if kBefore == n+1 {
					out.Probes["read_past_end"]++
				}
				stateChanging++
			case "unread":
				if k == 0 {
					out.Probes["unread_at_start"]++
				} else {
					if k == n+1 {
						out.Probes["unread_from_end_slot"]++
					}
					k--
					crossed = c11CharClass(content, k)
					if crossed == "CR-before-LF" {
						out.Probes["unread_cr_before_lf"]++
					}
				}
				s.Unread()
				stateChanging++
			case "unreadmany":
				cnt := o.I
				if cnt < 0 {
					cnt = 0
				}
				if cnt > k {
					out.Probes["unreadmany_beyond_start"]++
				}
				for j := 0; j < cnt && k > 0; j++ {
					k--
				}
				crossed = "many"
				s.UnreadMany(cnt)
				stateChanging++
			case "peek":
				got := s.Peek()
				if want := modelAt(k); got != want {
					out.Violate("cursor-model", fmt.Sprintf("C11/peek-value/%s", c11Kclass(k, n)),
						"op %d: Peek at cursor %d of %q returned %d, model says %d", i, k, tp.Text, got, want)
				}
			case "peekline":
				s.PeekLine()
			case "peekcol":
				s.PeekColumn()
			case "line":
				s.Line()
			case "col":
				s.Column()
			case "reset":
				s.Reset()
				k = 0
				stateChanging++
			default:
				continue
			}
			if !observe {
				out.Event("%s k=%d", o.Op, k)
				continue
			}
			out.Event("%s k=%d l=%d c=%d", o.Op, k, s.Line(), s.Column())
			check(i, o.Op, crossed)
			if len(out.Violations) > 0 {
				// after the first deviation line/column may stay shifted; the
				// history has served its purpose
				return
			}
		}
	}
	t := run.AddTask(func() { body() })
	run.Schedule(&ReplayChooser{})
	if t.PanicVal != nil {
		if sb, ok := t.PanicVal.(StepBudgetExceeded); ok {
			out.Violate("liveness", "C11/step-budget", "%v", sb)
		} else {
			out.Violate("no-panic", "C11/panic", "scanner operation panicked: %v", t.PanicVal)
		}
	}
	out.Steps = run.Steps()
	out.Nontrivial = len(tp.Ops) >= 3 && stateChanging >= 1
	out.CaseSig = HashJSON(struct {
		T string
		O []Op
	}{tp.Text, tp.Ops})
	return out
}

func contentClass(c []rune) string {
	b := make([]byte, len(c))
	for i, ch := range c {
		switch ch {
		case '\n':
			b[i] = 'L'
		case '\r':
			b[i] = 'C'
		default:
			b[i] = '.'
		}
	}
	return string(b)
}
