package sim

import (
	"fmt"
	"sort"
	"strconv"
	"strings"

	"github.com/pip-services3-gox/pip-services3-expressions-gox/calculator"
	"github.com/pip-services3-gox/pip-services3-expressions-gox/calculator/functions"
	cparsers "github.com/pip-services3-gox/pip-services3-expressions-gox/calculator/parsers"
	ctok "github.com/pip-services3-gox/pip-services3-expressions-gox/calculator/tokenizers"
	"github.com/pip-services3-gox/pip-services3-expressions-gox/calculator/variables"
	"github.com/pip-services3-gox/pip-services3-expressions-gox/csv"
	"github.com/pip-services3-gox/pip-services3-expressions-gox/mustache"
	mparsers "github.com/pip-services3-gox/pip-services3-expressions-gox/mustache/parsers"
	mtok "github.com/pip-services3-gox/pip-services3-expressions-gox/mustache/tokenizers"
	"github.com/pip-services3-gox/pip-services3-expressions-gox/tokenizers"
	"github.com/pip-services3-gox/pip-services3-expressions-gox/tokenizers/generic"
	"github.com/pip-services3-gox/pip-services3-expressions-gox/variants"
)

// C19 – evaluation is pure and repeatable, also under concurrent use.
// Seeded statement-level interleavings of concurrent evaluations of one
// compiled instance (or of separate instances), with sequential reference
// results, before/after snapshots and – in the race build – the Go race
// detector as oracles (DESIGN §4.1).
//
// Task bodies obey the harness rules: no fmt, no channels, no locks, no
// shared harness memory; raw results go into task-private pre-sized slots and
// are formatted after the join.

type propC19 struct{}

func init() { Register(propC19{}) }

func (propC19) ID() string { return "C19" }

var c19Kinds = []string{"calculator", "template", "gentok", "exprtok", "csvtok", "musttok", "exprparser", "mustparser"}

func (propC19) Gen(r *Rand) *Plan {
	p := &Plan{Config: map[string]string{}}
	p.Config["ops"] = r.Pick([]string{"unsafe", "unsafe", "safe"})
	ntasks := r.Range(2, 3+Scale)
	p.Config["order"] = r.Pick([]string{"ref-first", "conc-first"})
	p.Config["maporder"] = "0"
	if r.Bool(0.75) {
		p.Config["maporder"] = fmt.Sprint(1 + r.Int63())
	}
	switch r.Weighted([]int{12, 6, 6, 1, 3}) {
	case 4:
		// sequential repetition on one instance, default variables included (no schedule)
		p.Scenario = "sequential-repeat"
		if r.Bool(0.6) {
			g := NewExprGen(r)
			g.Mixed = r.Bool(0.5)
			p.Setup = []Op{{Op: "SetExpression", S: g.Top()}}
			tp := TaskPlan{Sets: []VarSet{g.GenVarSet(r), g.GenVarSet(r), g.GenVarSet(r)}}
			for i, n := 0, r.Range(3, 10); i < n; i++ {
				if r.Bool(0.25) && len(g.VarSeq) > 0 {
					v := GenValue(r, g.Vars[strings.ToUpper(g.VarSeq[0])])
					tp.Ops = append(tp.Ops, Op{Op: "edit", Set: r.Range(0, 2), I: r.Intn(3), S: g.VarSeq[r.Intn(len(g.VarSeq))], V: &v})
				}
				tp.Ops = append(tp.Ops, Op{Op: "eval", Set: r.Range(-1, 2)})
			}
			p.Tasks = []TaskPlan{tp}
		} else {
			g := NewTmplGen(r)
			p.Setup = []Op{{Op: "SetTemplate", S: g.Gen(2)}}
			// the order of the setters around SetTemplate: automatic variables off before it (the usual one), or left
			// on with the caller's default map handed over afterwards, possibly lacking a name the template uses
			p.Config["auto"] = r.Pick([]string{"off", "off", "on", "on-drop"})
			tp := TaskPlan{}
			for s := 0; s < 3; s++ {
				vs := VarSet{}
				for k, v := range g.GenVars(r) {
					vs[k] = VStr(v)
				}
				tp.Sets = append(tp.Sets, vs)
			}
			for i, n := 0, r.Range(3, 10); i < n; i++ {
				if r.Bool(0.3) && len(g.VarSeq) > 0 {
					// the caller edits its own map in place between two renderings
					tp.Ops = append(tp.Ops, Op{Op: "edit", Set: r.Range(0, 2), I: r.Intn(4), S: g.VarSeq[r.Intn(len(g.VarSeq))], S2: r.Pick([]string{"", "edited", "Z"})})
				}
				tp.Ops = append(tp.Ops, Op{Op: "eval", Set: r.Range(-1, 2)})
			}
			p.Tasks = []TaskPlan{tp}
		}
		return p
	case 3:
		// repetition under simulator-chosen map iteration orders (no schedule)
		p.Scenario = "map-order-repeat"
		g := NewTmplGen(r)
		text := g.Gen(2)
		p.Setup = []Op{{Op: "SetTemplate", S: text}}
		vs := VarSet{}
		for k, v := range g.GenVars(r) {
			vs[k] = VStr(v)
		}
		if r.Bool(0.5) && len(g.VarSeq) > 0 {
			// keys that differ by letter case only
			n := g.VarSeq[r.Intn(len(g.VarSeq))]
			vs[strings.ToLower(n)] = VStr("lower")
			vs[strings.ToUpper(n)] = VStr("UPPER")
		}
		tp := TaskPlan{Sets: []VarSet{vs}}
		for i, n := 0, r.Range(2, 8); i < n; i++ {
			tp.Ops = append(tp.Ops, Op{Op: "eval", I: 1 + r.Intn(1<<30)})
		}
		p.Tasks = []TaskPlan{tp}
		return p
	case 0:
		p.Scenario = "shared-calculator"
		g := NewExprGen(r)
		g.Mixed = r.Bool(0.5)
		text := g.Top()
		if r.Bool(0.3) {
			// a caller-supplied function collection shared by the tasks, with a delegate that fails for some
			// arguments: some evaluations are on the error path while others proceed
			p.Config["funcs"] = "custom"
			arg := fmt.Sprint(r.Range(0, 12))
			if v := g.varOf("int"); v != "" && r.Bool(0.7) {
				arg = v
			}
			text = "If(OddFails(" + arg + ") >= 0, " + text + ", " + text + ")"
		}
		if p.Config["funcs"] == "" && r.Bool(0.25) {
			// every task brings its own function collection; the collections disagree about what "Scale" does
			p.Config["funcs"] = "per-task"
			text = "Array(" + text + ", " + flipCase(r, "Scale") + "(" + fmt.Sprint(r.Range(1, 9)) + "))"
		}
		// conversion twins: a string variable compared with a time span / date / number / boolean, whose values
		// over the variable sets of the run come from one family of texts that are equal up to letter case or
		// blanks but do not all convert alike ("1h" is an hour, "1H" is no time span at all)
		var twinFam []string
		if r.Bool(0.06) {
			k := r.Intn(len(c19TwinFamilies))
			twinFam = c19TwinFamilies[k].texts
			cmp := "(" + r.Pick(c19TwinFamilies[k].left) + " " + r.Pick([]string{"<", ">", "=", "<>", "<=", ">="}) + " s9)"
			text = r.Pick([]string{cmp, g.fn("Array") + "(" + cmp + ", " + text + ")", g.fn("If") + "(" + cmp + ", 1, 2)"})
		}
		// a variable that holds an Object (a value of the caller's own type) as left operand of a comparison
		// with an ordinary variable: conversions towards Object hand operands through rather than copy them
		objVar := r.Bool(0.05)
		if objVar {
			rhs := g.varOf(r.Pick([]string{"int", "str", "float", "bool"}))
			if rhs == "" {
				rhs = "1"
			}
			cmp := "(o9 " + r.Pick([]string{"=", "<>", "!="}) + " " + rhs + ")"
			if r.Bool(0.3) {
				cmp = "(o9 " + g.kw("IN") + " " + g.fn("Array") + "(" + rhs + ", 2))"
			}
			text = r.Pick([]string{cmp, g.fn("Array") + "(" + cmp + ", " + text + ")", g.fn("Array") + "(" + text + ", " + cmp + ", " + cmp + ")"})
		}
		nilVar := r.Bool(0.1)
		if nilVar {
			// a variable whose Value() is nil (the caller did SetValue(nil)), referenced where its value is never
			// looked at: evaluation has no business repairing it
			text = r.Pick([]string{"If(1 = 1, ", "Choose(1, "}) + text + ", nilq)"
		}
		many := r.Bool(0.006)
		if many {
			// very many evaluations of one calculator in flight at once (a small expression, one evaluation each,
			// round-robin with a short quantum): anything that counts or limits concurrent users
			ntasks = r.Range(130, 320)
		}
		p.Setup = []Op{{Op: "SetExpression", S: text}}
		if r.Bool(0.15) {
			p.Config["setup"] = "tokens" // compiled through SetOriginalTokens
		}
		for t := 0; t < ntasks; t++ {
			tp := TaskPlan{Sets: []VarSet{g.GenVarSet(r), g.GenVarSet(r)}}
			if many {
				tp.Sets = tp.Sets[:1]
			}
			extra := map[string]func() Val{}
			if nilVar {
				extra["nilq"] = func() Val { return Val{T: "<nil>"} }
			}
			if twinFam != nil {
				extra["s9"] = func() Val { return VStr(twinFam[r.Intn(len(twinFam))]) }
			}
			if objVar {
				extra["o9"] = func() Val { return Val{T: "Object", I: int64(r.Intn(3))} }
			}
			for _, name := range []string{"nilq", "s9", "o9"} {
				if mk, ok := extra[name]; ok {
					for _, vs := range tp.Sets {
						vs[name] = mk()
						if o, ok := vs["#order"]; ok && o.S != "" {
							o.S += "," + name
							vs["#order"] = o
						}
					}
				}
			}
			for i, n := 0, r.Range(1, 4); i < n; i++ {
				tp.Ops = append(tp.Ops, Op{Op: "eval", Set: i % len(tp.Sets)})
				if many {
					break
				}
			}
			p.Tasks = append(p.Tasks, tp)
		}
		if many {
			p.Policy = "roundrobin"
			p.Config["quantum"] = fmt.Sprint(r.Range(1, 6))
			return p
		}
	case 1:
		p.Scenario = "shared-template"
		g := NewTmplGen(r)
		text := g.Gen(2)
		p.Setup = []Op{{Op: "SetTemplate", S: text}}
		for t := 0; t < ntasks; t++ {
			tp := TaskPlan{}
			for s := 0; s < 2; s++ {
				vs := VarSet{}
				for k, v := range g.GenVars(r) {
					vs[k] = VStr(v)
				}
				tp.Sets = append(tp.Sets, vs)
			}
			for i, n := 0, r.Range(1, 4); i < n; i++ {
				tp.Ops = append(tp.Ops, Op{Op: "eval", Set: i % 2})
			}
			p.Tasks = append(p.Tasks, tp)
		}
	default:
		p.Scenario = "separate"
		for t := 0; t < ntasks; t++ {
			kind := r.Pick(c19Kinds)
			tp := TaskPlan{Kind: kind}
			switch kind {
			case "calculator":
				g := NewExprGen(r)
				tp.Text = g.Top()
				tp.Sets = []VarSet{g.GenVarSet(r)}
			case "template":
				g := NewTmplGen(r)
				tp.Text = g.Gen(2)
				vs := VarSet{}
				for k, v := range g.GenVars(r) {
					vs[k] = VStr(v)
				}
				tp.Sets = []VarSet{vs}
			case "musttok", "mustparser":
				tp.Text = NewTmplGen(r).Gen(2)
			case "exprparser":
				tp.Text = NewExprGen(r).Top()
			case "csvtok":
				tp.Text = r.Pick([]string{"a,b\r\n\"x,\"\"y\",2\n", "1,2,3\n\r4", "é,λ\r\n,", "\"unterminated,1"})
			default:
				tp.Text = NewExprGen(r).Top() + r.Pick([]string{"", " <= >= <> != << >>", " 'str' \"q\" 1.5e3 // c"})
			}
			for i, n := 0, r.Range(1, 2); i < n; i++ {
				tp.Ops = append(tp.Ops, Op{Op: "use"})
			}
			p.Tasks = append(p.Tasks, tp)
		}
	}
	p.Policy = Policies[r.Intn(len(Policies)-1)] // never "serial"
	return p
}

var c19TwinFamilies = []struct {
	left  []string
	texts []string
}{
	{[]string{"TimeSpan(0,0,30,0)", "TimeSpan(0,1,0,0)", "TimeSpan(0,1,30,0)"}, []string{"1h", "1H", "90m", "90M", " 1h"}},
	{[]string{"Date(2020,1,2)", "Date(2020,1,2,3,4,5)", "Date(2030,1,1)"}, []string{"2020-01-02T03:04:05Z", "2020-01-02t03:04:05z", "2020-01-02T03:04:05z", "2020-01-02 03:04:05Z"}},
	{[]string{"100", "100.0", "31", "0"}, []string{"1e2", "1E2", "0x1f", "0X1F", " 100", "100 ", "1_00", "inf", "Inf", "INF", "nan", "NaN"}},
	{[]string{"TRUE", "FALSE", "(1 = 1)"}, []string{"true", "TRUE", "True", "tRUE", " true", "1", "yes", "YES"}},
}

// c19Slot is one raw result, written by the owning task only.
type c19Slot struct {
	res    *variants.Variant
	str    string
	toks   []*tokenizers.Token
	err    error
	panicV any
	done   bool
}

func opsManager(name string) variants.IVariantOperations {
	if name == "safe" {
		return variants.NewTypeSafeVariantOperations()
	}
	return variants.NewTypeUnsafeVariantOperations()
}

func buildVars(vs VarSet) *variables.VariableCollection {
	return buildVarsWith(vs, sort.Strings)
}

// buildVarsWith builds the collection of a variable set: in the layout given by
// its "#order" entry when there is one (extra and case-duplicate names get a
// marker value), otherwise sorted by name.
func buildVarsWith(vs VarSet, sortNames func([]string)) *variables.VariableCollection {
	c := variables.NewVariableCollection()
	if o, ok := vs["#order"]; ok && o.S != "" {
		for _, n := range splitComma(o.S) {
			if n == "" {
				continue
			}
			if v, ok := vs[n]; ok {
				c.Add(newVar(n, v))
			} else {
				c.Add(variables.NewVariable(n, variants.VariantFromInteger(-777)))
			}
		}
		return c
	}
	names := make([]string, 0, len(vs))
	for n := range vs {
		names = append(names, n)
	}
	sortNames(names)
	for _, n := range names {
		if n == "" || n == "#order" {
			continue
		}
		c.Add(newVar(n, vs[n]))
	}
	return c
}

// newVar builds a variable; a value of type "<nil>" gives one whose Value() is nil (SetValue(nil)).
func newVar(name string, v Val) *variables.Variable {
	if v.T == "<nil>" {
		nv := variables.NewVariable(name, nil)
		nv.SetValue(nil)
		return nv
	}
	return variables.NewVariable(name, v.ToVariant())
}

func splitComma(s string) []string {
	var out []string
	cur := ""
	for _, ch := range s {
		if ch == ',' {
			out = append(out, cur)
			cur = ""
		} else {
			cur += string(ch)
		}
	}
	return append(out, cur)
}

func buildMap(vs VarSet) map[string]string {
	m := map[string]string{}
	for k, v := range vs {
		if k == "#order" {
			continue
		}
		// maps whose keys differ by case only are kept out of schedule-exploring
		// runs (unowned map iteration order, DESIGN §1)
		dup := false
		for k2 := range m {
			if strings.EqualFold(k, k2) {
				dup = true
			}
		}
		if !dup {
			m[k] = v.S
		}
	}
	return m
}

// describe formats a slot after the join.
func (s *c19Slot) describe() string {
	if !s.done {
		return "<not executed>"
	}
	if s.panicV != nil {
		if sb, ok := s.panicV.(StepBudgetExceeded); ok {
			return "step-budget:" + sb.Error()
		}
		return fmt.Sprintf("panic:%v", s.panicV)
	}
	if s.err != nil {
		return "error:" + ErrCode(s.err) + ":" + ErrMessage(s.err)
	}
	if s.toks != nil {
		return describeTokens(s.toks)
	}
	if s.res != nil {
		return "value:" + FromVariant(s.res).String()
	}
	return "string:" + s.str
}

func describeTokens(toks []*tokenizers.Token) string {
	var sb strings.Builder
	sb.WriteString("tokens:")
	for _, t := range toks {
		if t == nil {
			sb.WriteString("<nil>;")
			continue
		}
		fmt.Fprintf(&sb, "%d %q %d:%d;", t.Type(), t.Value(), t.Line(), t.Column())
	}
	return sb.String()
}

func snapshotCalc(c *calculator.ExpressionCalculator) string {
	var sb strings.Builder
	for _, t := range c.ResultTokens() {
		fmt.Fprintf(&sb, "%d|%s|%d:%d;", t.Type(), FromVariant(t.Value()).String(), t.Line(), t.Column())
	}
	sb.WriteString("#fn:")
	for _, f := range c.DefaultFunctions().GetAll() {
		sb.WriteString(f.Name() + ",")
	}
	sb.WriteString("#vars:")
	for _, v := range c.DefaultVariables().GetAll() {
		sb.WriteString(v.Name() + "=" + FromVariant(v.Value()).String() + ",")
	}
	sb.WriteString("#empty:" + FromVariant(variants.Empty).String())
	return sb.String()
}

func snapshotVars(c *variables.VariableCollection) string {
	var sb strings.Builder
	for _, v := range c.GetAll() {
		sb.WriteString(v.Name() + "=" + FromVariant(v.Value()).String() + ",")
	}
	return sb.String()
}

func snapshotTmplTokens(sb *strings.Builder, toks []*mparsers.MustacheToken) {
	for _, t := range toks {
		fmt.Fprintf(sb, "%d|%q|%d:%d[", t.Type(), t.Value(), t.Line(), t.Column())
		snapshotTmplTokens(sb, t.Tokens())
		sb.WriteString("]")
	}
}

func snapshotTmpl(t *mustache.MustacheTemplate) string {
	var sb strings.Builder
	snapshotTmplTokens(&sb, t.ResultTokens())
	keys := make([]string, 0)
	for k := range t.DefaultVariables() {
		keys = append(keys, k)
	}
	sort.Strings(keys)
	for _, k := range keys {
		sb.WriteString("#" + k + "=" + t.DefaultVariables()[k])
	}
	return sb.String()
}

func snapshotMap(m map[string]string) string {
	keys := make([]string, 0, len(m))
	for k := range m {
		keys = append(keys, k)
	}
	sort.Strings(keys)
	var sb strings.Builder
	for _, k := range keys {
		sb.WriteString(k + "=" + m[k] + ";")
	}
	return sb.String()
}

// useSeparate constructs an instance of the given kind and uses it once.
// No fmt, no locks: raw results only.
func useSeparate(kind, text string, vs VarSet, ops string, slot *c19Slot) {
	defer func() {
		if p := recover(); p != nil {
			slot.panicV = p
		}
		slot.done = true
	}()
	switch kind {
	case "calculator":
		c := calculator.NewExpressionCalculator()
		c.SetVariantOperations(opsManager(ops))
		if err := c.SetExpression(text); err != nil {
			slot.err = err
			return
		}
		slot.res, slot.err = c.EvaluateUsingVariables(buildVarsNoSort(vs))
	case "template":
		t := mustache.NewMustacheTemplate()
		if err := t.SetTemplate(text); err != nil {
			slot.err = err
			return
		}
		slot.str, slot.err = t.EvaluateWithVariables(buildMap(vs))
	case "gentok":
		slot.toks = generic.NewGenericTokenizer().TokenizeBuffer(text)
	case "exprtok":
		slot.toks = ctok.NewExpressionTokenizer().TokenizeBuffer(text)
	case "csvtok":
		slot.toks = csv.NewCsvTokenizer().TokenizeBuffer(text)
	case "musttok":
		slot.toks = mtok.NewMustacheTokenizer().TokenizeBuffer(text)
	case "exprparser":
		ep := cparsers.NewExpressionParser()
		slot.err = ep.ParseString(text)
		slot.str = describeExprTokensNoFmt(ep.ResultTokens(), ep.VariableNames())
	case "mustparser":
		mp := mparsers.NewMustacheParser()
		slot.err = mp.ParseString(text)
		slot.str = joinStrings(mp.VariableNames())
	default:
		slot.str = "unknown-kind"
	}
}

// buildVarsNoSort is buildVars without the sort package (task-safe).
func buildVarsNoSort(vs VarSet) *variables.VariableCollection {
	return buildVarsWith(vs, sortStrings)
}

func (propC19) Exec(p *Plan, x *Ctx) *Outcome {
	out := NewOutcome()
	// step budget per operation: generous and growing with the size of the texts (the thorough tier triples
	// the generators' size bounds; a budget that a large but finite parse exceeds would be a harness failure)
	textLen := 0
	for _, o := range p.Setup {
		textLen += len(o.S)
	}
	for _, tp := range p.Tasks {
		textLen += len(tp.Text)
	}
	run := NewRun(200_000 + 4000*int64(textLen))
	mo, _ := strconv.ParseUint(p.Cfg("maporder", "0"), 10, 64)
	SetMapOrder(mo)
	defer SetMapOrder(0)
	if p.Scenario == "map-order-repeat" {
		return c19MapOrderRepeat(p, run, out)
	}
	if p.Scenario == "sequential-repeat" {
		return c19SequentialRepeat(p, run, out)
	}
	ops := p.Cfg("ops", "unsafe")
	ntasks := len(p.Tasks)
	if ntasks == 0 {
		return out
	}
	setupText := ""
	if len(p.Setup) > 0 {
		setupText = p.Setup[0].S
	}

	// slots: [task][op]
	slots := make([][]c19Slot, ntasks)
	ref := make([][]string, ntasks)
	for t := range slots {
		slots[t] = make([]c19Slot, len(p.Tasks[t].Ops))
		ref[t] = make([]string, len(p.Tasks[t].Ops))
	}
	getSet := func(tp TaskPlan, i int) VarSet {
		if len(tp.Sets) == 0 {
			return VarSet{}
		}
		if i < 0 {
			i = -i
		}
		return tp.Sets[i%len(tp.Sets)]
	}

	// customFuncs builds the caller-supplied function collection of the "funcs: custom" configuration:
	// the defaults plus a delegate that fails deterministically, by its argument
	customFuncs := func() functions.IFunctionCollection {
		if p.Cfg("funcs", "") != "custom" {
			return nil
		}
		fc := functions.NewDefaultFunctionCollection()
		fc.Add(functions.NewDelegatedFunction("OddFails", oddFails))
		return fc
	}
	sharedFuncs := customFuncs()
	// per-task collections: same names, task-specific behaviour
	perTask := p.Cfg("funcs", "") == "per-task"
	taskFuncsOf := func(t int) functions.IFunctionCollection {
		if !perTask {
			return sharedFuncs
		}
		fc := functions.NewDefaultFunctionCollection()
		fc.Add(functions.NewDelegatedFunction("Scale", scaleBy(10+t)))
		return fc
	}
	taskFuncs := make([]functions.IFunctionCollection, ntasks)
	for t := range taskFuncs {
		taskFuncs[t] = taskFuncsOf(t)
	}
	var sharedCalc *calculator.ExpressionCalculator
	var sharedTmpl *mustache.MustacheTemplate
	taskVars := make([][]*variables.VariableCollection, ntasks)
	taskMaps := make([][]map[string]string, ntasks)
	var setupErr error
	var snapBefore string
	varsBefore := make([][]string, ntasks)

	// ---- setup phase: the shared instance, the tasks' variable collections and the
	// snapshots are always built first, on the calling goroutine, before any task is forked
	run.Solo(func() {
		switch p.Scenario {
		case "shared-calculator":
			run.ResetOpSteps()
			sharedCalc = calculator.NewExpressionCalculator()
			sharedCalc.SetVariantOperations(opsManager(ops))
			func() {
				defer func() {
					if pv := recover(); pv != nil {
						setupErr = fmt.Errorf("panic: %v", pv)
					}
				}()
				if p.Cfg("setup", "") == "tokens" {
					// SetOriginalTokens reports no error: make sure the text parses at all first
					if setupErr = calculator.NewExpressionCalculator().SetExpression(setupText); setupErr == nil {
						sharedCalc.SetOriginalTokens(exprOriginalTokens(setupText))
					}
				} else {
					setupErr = sharedCalc.SetExpression(setupText)
				}
			}()
			for t, tp := range p.Tasks {
				for s := range tp.Sets {
					vc := buildVars(tp.Sets[s])
					taskVars[t] = append(taskVars[t], vc)
					varsBefore[t] = append(varsBefore[t], snapshotVars(vc))
				}
				if len(tp.Sets) == 0 {
					vc := buildVars(VarSet{})
					taskVars[t] = append(taskVars[t], vc)
					varsBefore[t] = append(varsBefore[t], snapshotVars(vc))
				}
			}
			if setupErr == nil {
				snapBefore = snapshotCalc(sharedCalc)
			}
		case "shared-template":
			run.ResetOpSteps()
			sharedTmpl = mustache.NewMustacheTemplate()
			func() {
				defer func() {
					if pv := recover(); pv != nil {
						setupErr = fmt.Errorf("panic: %v", pv)
					}
				}()
				setupErr = sharedTmpl.SetTemplate(setupText)
			}()
			for t, tp := range p.Tasks {
				sets := tp.Sets
				if len(sets) == 0 {
					sets = []VarSet{{}}
				}
				for s := range sets {
					m := buildMap(sets[s])
					taskMaps[t] = append(taskMaps[t], m)
					varsBefore[t] = append(varsBefore[t], snapshotMap(m))
				}
			}
			if setupErr == nil {
				snapBefore = snapshotTmpl(sharedTmpl)
			}
		}
	})
	if setupErr != nil {
		// nothing to evaluate concurrently: the case is trivial
		out.Observations["setup_failed"]++
		out.Event("setup failed")
		out.CaseSig = HashJSON(p.Setup)
		return out
	}
	// ---- sequential reference: every (task, evaluation) on a separate fresh instance.
	// order "ref-first" computes it before the concurrent phase, "conc-first" afterwards,
	// so that lazily initialised shared state is first touched by the concurrent tasks.
	computeRef := func() {
		run.Solo(func() {
			switch p.Scenario {
			case "shared-calculator":
				for t, tp := range p.Tasks {
					for i, o := range tp.Ops {
						var s c19Slot
						run.ResetOpSteps()
						func() {
							defer func() {
								if pv := recover(); pv != nil {
									s.panicV = pv
								}
								s.done = true
							}()
							c := calculator.NewExpressionCalculator()
							c.SetVariantOperations(opsManager(ops))
							if err := c.SetExpression(setupText); err != nil {
								s.err = err
								return
							}
							fc := customFuncs()
							if perTask {
								fc = taskFuncsOf(t)
							}
							s.res, s.err = c.EvaluateUsingVariablesAndFunctions(buildVars(getSet(tp, o.Set)), fc)
						}()
						ref[t][i] = s.describe()
					}
				}
			case "shared-template":
				for t, tp := range p.Tasks {
					for i, o := range tp.Ops {
						var s c19Slot
						run.ResetOpSteps()
						func() {
							defer func() {
								if pv := recover(); pv != nil {
									s.panicV = pv
								}
								s.done = true
							}()
							tm := mustache.NewMustacheTemplate()
							if err := tm.SetTemplate(setupText); err != nil {
								s.err = err
								return
							}
							s.str, s.err = tm.EvaluateWithVariables(buildMap(getSet(tp, o.Set)))
						}()
						ref[t][i] = s.describe()
					}
				}
			default: // separate
				for t, tp := range p.Tasks {
					for i := range tp.Ops {
						var s c19Slot
						run.ResetOpSteps()
						useSeparate(tp.Kind, tp.Text, getSet(tp, 0), ops, &s)
						ref[t][i] = s.describe()
					}
				}
			}
		})
	}
	concFirst := p.Cfg("order", "ref-first") == "conc-first"
	if !concFirst {
		computeRef()
	}
	emptyBefore := FromVariant(variants.Empty).String()

	// ---- concurrent phase
	for t := range p.Tasks {
		t := t
		tp := p.Tasks[t]
		switch p.Scenario {
		case "shared-calculator":
			run.AddTask(func() {
				for i := range tp.Ops {
					s := &slots[t][i]
					set := tp.Ops[i].Set
					if set < 0 {
						set = -set
					}
					vc := taskVars[t][set%len(taskVars[t])]
					func() {
						defer func() {
							if pv := recover(); pv != nil {
								s.panicV = pv
							}
							s.done = true
						}()
						run.ResetOpSteps()
						s.res, s.err = sharedCalc.EvaluateUsingVariablesAndFunctions(vc, taskFuncs[t])
					}()
				}
			})
		case "shared-template":
			run.AddTask(func() {
				for i := range tp.Ops {
					s := &slots[t][i]
					set := tp.Ops[i].Set
					if set < 0 {
						set = -set
					}
					m := taskMaps[t][set%len(taskMaps[t])]
					func() {
						defer func() {
							if pv := recover(); pv != nil {
								s.panicV = pv
							}
							s.done = true
						}()
						run.ResetOpSteps()
						s.str, s.err = sharedTmpl.EvaluateWithVariables(m)
					}()
				}
			})
		default:
			vs := getSet(tp, 0)
			run.AddTask(func() {
				for i := range tp.Ops {
					run.ResetOpSteps()
					useSeparate(tp.Kind, tp.Text, vs, ops, &slots[t][i])
				}
			})
		}
	}
	var ch Chooser
	if x.Replay || len(p.Schedule) > 0 || x.R == nil {
		ch = &ReplayChooser{Sched: p.Schedule}
	} else {
		pc := NewPolicyChooser(x.R, p.Policy, ntasks, false)
		if q := p.Cfg("quantum", ""); q != "" {
			fmt.Sscan(q, &pc.MaxQ)
		}
		ch = pc
	}
	if p.Cfg("coarse", "") == "on" {
		run.SetCoarse(true)
	}
	run.Schedule(ch)
	if !x.Replay && len(p.Schedule) == 0 {
		p.Schedule = run.Executed
	}
	if concFirst {
		out.Probes["order_conc_first"]++
		computeRef()
	}

	// ---- oracles (after the join; formatting is allowed again)
	for _, e := range run.Executed {
		out.Sched.Int(int64(e.Task)).Int(e.Quantum)
	}
	for t := range slots {
		for i := range slots[t] {
			got := slots[t][i].describe()
			out.Event("t%d.%d %s", t, i, got)
			if strings.HasPrefix(got, "step-budget:") {
				out.Violate("liveness", "C19/step-budget", "task %d op %d: %s", t, i, got)
				continue
			}
			if strings.HasPrefix(got, "panic:") {
				out.Observations["panic_in_evaluation"]++
			}
			if got != ref[t][i] {
				out.Violate("sequential-result", fmt.Sprintf("C19/result/%s", p.Scenario),
					"task %d op %d under the schedule: got %s; the sequential reference gives %s", t, i, clip(got), clip(ref[t][i]))
			}
		}
	}
	if e := FromVariant(variants.Empty).String(); e != emptyBefore || e != "Null" {
		out.Violate("snapshot", "C19/snapshot/variants.Empty", "package-level variants.Empty is %s after the run (was %s)", e, emptyBefore)
	}
	switch p.Scenario {
	case "shared-calculator":
		if s := snapshotCalc(sharedCalc); s != snapBefore {
			out.Violate("snapshot", "C19/snapshot/program", "compiled program / function table / default variables changed during evaluation:\n before %s\n after  %s", clip(snapBefore), clip(s))
		}
		for t := range taskVars {
			for s := range taskVars[t] {
				if now := snapshotVars(taskVars[t][s]); now != varsBefore[t][s] {
					out.Violate("snapshot", "C19/snapshot/variables", "variable values of task %d set %d changed: before %s after %s", t, s, clip(varsBefore[t][s]), clip(now))
				}
			}
		}
		// repeatability: everything once more, sequentially, on the shared instance
		run.Solo(func() {
			for t, tp := range p.Tasks {
				for i, o := range tp.Ops {
					var s c19Slot
					run.ResetOpSteps()
					func() {
						defer func() {
							if pv := recover(); pv != nil {
								s.panicV = pv
							}
							s.done = true
						}()
						set := o.Set
						if set < 0 {
							set = -set
						}
						s.res, s.err = sharedCalc.EvaluateUsingVariablesAndFunctions(taskVars[t][set%len(taskVars[t])], taskFuncs[t])
					}()
					if got := s.describe(); got != ref[t][i] {
						out.Violate("repeatability", "C19/repeat/shared-calculator", "task %d op %d evaluated again afterwards: got %s; reference %s", t, i, clip(got), clip(ref[t][i]))
					}
				}
			}
		})
	case "shared-template":
		if s := snapshotTmpl(sharedTmpl); s != snapBefore {
			out.Violate("snapshot", "C19/snapshot/template", "parsed template changed during rendering:\n before %s\n after  %s", clip(snapBefore), clip(s))
		}
		for t := range taskMaps {
			for s := range taskMaps[t] {
				if now := snapshotMap(taskMaps[t][s]); now != varsBefore[t][s] {
					out.Violate("snapshot", "C19/snapshot/variables", "variable map of task %d set %d changed", t, s)
				}
			}
		}
		run.Solo(func() {
			for t, tp := range p.Tasks {
				for i, o := range tp.Ops {
					var s c19Slot
					run.ResetOpSteps()
					func() {
						defer func() {
							if pv := recover(); pv != nil {
								s.panicV = pv
							}
							s.done = true
						}()
						set := o.Set
						if set < 0 {
							set = -set
						}
						s.str, s.err = sharedTmpl.EvaluateWithVariables(taskMaps[t][set%len(taskMaps[t])])
					}()
					if got := s.describe(); got != ref[t][i] {
						out.Violate("repeatability", "C19/repeat/shared-template", "task %d op %d rendered again afterwards: got %s; reference %s", t, i, clip(got), clip(ref[t][i]))
					}
				}
			}
		})
	}

	out.Steps = run.Steps()
	out.Switches = run.Switches()
	out.SwitchPairs = run.SwitchPairs()
	out.SchedSig = ScheduleSig(run.Executed)
	out.Nontrivial = out.Switches > 0
	out.CaseSig = NewHasher().Int(int64(HashJSON(struct {
		S  string
		Se []Op
		T  []TaskPlan
		C  map[string]string
	}{p.Scenario, p.Setup, p.Tasks, p.Config}))).Int(int64(out.SchedSig)).Sum()
	out.Probes["scenario_"+p.Scenario]++
	return out
}

func clip(s string) string {
	if len(s) > 400 {
		return s[:400] + "…"
	}
	return s
}

// c19MapOrderRepeat renders one template several times with the same map under
// different simulator-chosen map iteration orders: the renderings must agree.
func c19MapOrderRepeat(p *Plan, run *Run, out *Outcome) *Outcome {
	if len(p.Tasks) == 0 || len(p.Setup) == 0 {
		return out
	}
	tp := p.Tasks[0]
	m := map[string]string{}
	collide := false
	if len(tp.Sets) > 0 {
		for k, v := range tp.Sets[0] {
			m[k] = v.S
		}
		for k := range m {
			for k2 := range m {
				if k != k2 && strings.EqualFold(k, k2) {
					collide = true
				}
			}
		}
	}
	var results []string
	run.Solo(func() {
		tm := mustache.NewMustacheTemplate()
		tm.SetAutoVariables(false)
		var err error
		func() {
			defer func() {
				if pv := recover(); pv != nil {
					err = fmt.Errorf("panic: %v", pv)
				}
			}()
			err = tm.SetTemplate(p.Setup[0].S)
		}()
		if err != nil {
			out.Observations["setup_failed"]++
			return
		}
		for _, o := range tp.Ops {
			run.ResetOpSteps()
			SetMapOrder(uint64(o.I))
			var s c19Slot
			func() {
				defer func() {
					if pv := recover(); pv != nil {
						s.panicV = pv
					}
					s.done = true
				}()
				s.str, s.err = tm.EvaluateWithVariables(m)
			}()
			results = append(results, s.describe())
		}
	})
	for i, r := range results {
		out.Event("%d %s", i, r)
		if r != results[0] {
			cls := "C19/repeat/map-order"
			if collide {
				cls = "C19/repeat/map-order/case-colliding-keys"
			}
			out.Violate("repeatability", cls, "rendering %d of %q with variables %s gives %s, rendering 0 gave %s (only the map iteration order differs)",
				i, p.Setup[0].S, snapshotMap(m), clip(r), clip(results[0]))
			break
		}
	}
	if collide {
		out.Probes["map_order_case_colliding"]++
	}
	out.Probes["scenario_map-order-repeat"]++
	out.Steps = run.Steps()
	out.Nontrivial = len(results) >= 2 && len(m) >= 2
	out.CaseSig = HashJSON(struct {
		S []Op
		T []TaskPlan
	}{p.Setup, p.Tasks})
	return out
}

// describeExprTokensNoFmt summarises a compiled program without fmt (task-safe).
func describeExprTokensNoFmt(toks []*cparsers.ExpressionToken, names []string) string {
	b := make([]byte, 0, 64)
	for _, t := range toks {
		b = strconv.AppendInt(b, int64(t.Type()), 10)
		b = append(b, ':')
		b = strconv.AppendInt(b, int64(t.Line()), 10)
		b = append(b, ':')
		b = strconv.AppendInt(b, int64(t.Column()), 10)
		b = append(b, ';')
	}
	return string(b) + "|" + joinStrings(names)
}

func joinStrings(ss []string) string {
	out := ""
	for i, s := range ss {
		if i > 0 {
			out += ","
		}
		out += s
	}
	return out
}

// c19SequentialRepeat evaluates one parsed instance many times in a row, with
// its default variables (set index -1: Evaluate()) and with explicit sets, in a
// seeded order: every evaluation of a set must give what a fresh instance gives
// for that set, and program, defaults and variable values must stay as they were.
func c19SequentialRepeat(p *Plan, run *Run, out *Outcome) *Outcome {
	if len(p.Tasks) == 0 || len(p.Setup) == 0 {
		return out
	}
	tp := p.Tasks[0]
	ops := p.Cfg("ops", "unsafe")
	isTmpl := p.Setup[0].Op == "SetTemplate"
	text := p.Setup[0].S
	sets := tp.Sets
	if len(sets) == 0 {
		sets = []VarSet{{}}
	}
	setIdx := func(i int) int {
		if i < 0 {
			return -1
		}
		return i % len(sets)
	}
	evals := 0
	auto := p.Cfg("auto", "off")
	// defaultMap: the caller's default variables of a template (a new map each time); with "on-drop" without the
	// alphabetically first name
	defaultMap := func() map[string]string {
		m := buildMap(sets[0])
		if auto == "on-drop" && len(m) > 1 {
			first := ""
			for k := range m {
				if first == "" || k < first {
					first = k
				}
			}
			delete(m, first)
		}
		return m
	}
	run.Solo(func() {
		refs := map[int]string{}
		var calc *calculator.ExpressionCalculator
		var tmpl *mustache.MustacheTemplate
		var colls []*variables.VariableCollection
		var maps []map[string]string
		var before []string
		var snap string
		var setupErr error
		func() {
			defer func() {
				if pv := recover(); pv != nil {
					setupErr = fmt.Errorf("panic: %v", pv)
				}
			}()
			if isTmpl {
				tmpl = mustache.NewMustacheTemplate()
				if auto == "off" {
					tmpl.SetAutoVariables(false)
				}
				setupErr = tmpl.SetTemplate(text)
				tmpl.SetDefaultVariables(defaultMap())
			} else {
				calc = calculator.NewExpressionCalculator()
				calc.SetVariantOperations(opsManager(ops))
				calc.SetAutoVariables(false)
				setupErr = calc.SetExpression(text)
				for _, v := range buildVars(sets[0]).GetAll() {
					calc.DefaultVariables().Add(v)
				}
			}
		}()
		if setupErr != nil {
			out.Observations["setup_failed"]++
			return
		}
		for _, vs := range sets {
			if isTmpl {
				m := buildMap(vs)
				maps = append(maps, m)
				before = append(before, snapshotMap(m))
			} else {
				c := buildVars(vs)
				colls = append(colls, c)
				before = append(before, snapshotVars(c))
			}
		}
		if isTmpl {
			snap = snapshotTmpl(tmpl)
		} else {
			snap = snapshotCalc(calc)
		}
		evalOne := func(k int, fresh bool) string {
			var s c19Slot
			run.ResetOpSteps()
			func() {
				defer func() {
					if pv := recover(); pv != nil {
						s.panicV = pv
					}
					s.done = true
				}()
				if isTmpl {
					t := tmpl
					if fresh {
						t = mustache.NewMustacheTemplate()
						if auto == "off" {
							t.SetAutoVariables(false)
						}
						if err := t.SetTemplate(text); err != nil {
							s.err = err
							return
						}
						t.SetDefaultVariables(defaultMap())
					}
					if k < 0 {
						s.str, s.err = t.Evaluate()
					} else if fresh {
						s.str, s.err = t.EvaluateWithVariables(buildMap(sets[k]))
					} else {
						s.str, s.err = t.EvaluateWithVariables(maps[k])
					}
					return
				}
				c := calc
				if fresh {
					c = calculator.NewExpressionCalculator()
					c.SetVariantOperations(opsManager(ops))
					c.SetAutoVariables(false)
					if err := c.SetExpression(text); err != nil {
						s.err = err
						return
					}
					for _, v := range buildVars(sets[0]).GetAll() {
						c.DefaultVariables().Add(v)
					}
				}
				if k < 0 {
					s.res, s.err = c.Evaluate()
				} else if fresh {
					s.res, s.err = c.EvaluateUsingVariables(buildVars(sets[k]))
				} else {
					s.res, s.err = c.EvaluateUsingVariables(colls[k])
				}
			}()
			return s.describe()
		}
		// copies of the live variable objects, for the fresh reference after the caller edited them
		liveColl := func(k int) *variables.VariableCollection {
			c := variables.NewVariableCollection()
			for _, v := range colls[k].GetAll() {
				c.Add(variables.NewVariable(v.Name(), v.Value().Clone()))
			}
			return c
		}
		liveMap := func(k int) map[string]string {
			m := map[string]string{}
			for kk, vv := range maps[k] {
				m[kk] = vv
			}
			return m
		}
		edited := map[int]bool{}
		evalFreshLive := func(k int) string {
			var s c19Slot
			run.ResetOpSteps()
			func() {
				defer func() {
					if pv := recover(); pv != nil {
						s.panicV = pv
					}
					s.done = true
				}()
				if isTmpl {
					t := mustache.NewMustacheTemplate()
					t.SetAutoVariables(false)
					if err := t.SetTemplate(text); err != nil {
						s.err = err
						return
					}
					s.str, s.err = t.EvaluateWithVariables(liveMap(k))
					return
				}
				c := calculator.NewExpressionCalculator()
				c.SetVariantOperations(opsManager(ops))
				c.SetAutoVariables(false)
				if err := c.SetExpression(text); err != nil {
					s.err = err
					return
				}
				s.res, s.err = c.EvaluateUsingVariables(liveColl(k))
			}()
			return s.describe()
		}
		for i, o := range tp.Ops {
			k := setIdx(o.Set)
			if o.Op == "edit" {
				if k < 0 {
					continue
				}
				// the caller changes its own variable set in place between two evaluations
				if isTmpl {
					m := maps[k]
					switch o.I % 4 {
					case 0: // same size, a key respelled in another letter case
						if v, ok := m[o.S]; ok {
							delete(m, o.S)
							n := strings.ToUpper(o.S)
							if n == o.S {
								n = strings.ToLower(o.S)
							}
							if n != o.S {
								m[n] = v + o.S2
							} else {
								m[o.S] = v
							}
						}
					case 1:
						if _, ok := m[o.S]; ok {
							m[o.S] = o.S2
						}
					case 2:
						delete(m, o.S)
					default:
						dup := false
						for kk := range m {
							if strings.EqualFold(kk, o.S) {
								dup = true
							}
						}
						if !dup {
							m[o.S] = o.S2
						}
					}
					before[k] = snapshotMap(m)
				} else {
					c := colls[k]
					switch o.I % 3 {
					case 0:
						if v := c.FindByName(o.S); v != nil && o.V != nil {
							v.SetValue(o.V.ToVariant())
						}
					case 1: // same length, other layout: remove and add again at the end
						if v := c.FindByName(o.S); v != nil {
							val := v.Value()
							c.RemoveByName(o.S)
							c.Add(variables.NewVariable(o.S, val))
						}
					default:
						if v := c.FindByName(o.S); v != nil {
							v.SetValue(variants.EmptyVariant())
						}
					}
					before[k] = snapshotVars(c)
				}
				edited[k] = true
				delete(refs, k)
				out.Probes["variables_edited_between_evaluations"]++
				continue
			}
			if _, ok := refs[k]; !ok {
				if k >= 0 && edited[k] {
					refs[k] = evalFreshLive(k)
				} else {
					refs[k] = evalOne(k, true)
				}
			}
			got := evalOne(k, false)
			evals++
			out.Event("%d set%d %s", i, k, got)
			if strings.HasPrefix(got, "step-budget:") {
				out.Violate("liveness", "C19/step-budget", "evaluation %d: %s", i, got)
				return
			}
			if got != refs[k] {
				out.Violate("repeatability", "C19/repeat/sequential", "evaluation %d of %q with variable set %d (-1 = default variables) after %d earlier evaluations gives %s; a fresh instance gives %s", i, text, k, i, clip(got), clip(refs[k]))
				return
			}
		}
		now := ""
		if isTmpl {
			now = snapshotTmpl(tmpl)
		} else {
			now = snapshotCalc(calc)
		}
		if now != snap {
			out.Violate("snapshot", "C19/snapshot/sequential", "program / defaults changed by sequential evaluations:\n before %s\n after  %s", clip(snap), clip(now))
		}
		for k := range sets {
			var cur string
			if isTmpl {
				cur = snapshotMap(maps[k])
			} else {
				cur = snapshotVars(colls[k])
			}
			if cur != before[k] {
				out.Violate("snapshot", "C19/snapshot/variables", "variable set %d changed: before %s after %s", k, clip(before[k]), clip(cur))
			}
		}
	})
	out.Probes["scenario_sequential-repeat"]++
	out.Steps = run.Steps()
	out.Nontrivial = evals >= 3
	out.CaseSig = HashJSON(struct {
		S []Op
		T []TaskPlan
		C map[string]string
	}{p.Setup, p.Tasks, p.Config})
	return out
}

var errOdd = errorString("odd argument")

type errorString string

func (e errorString) Error() string { return string(e) }

// oddFails is a caller-supplied function delegate (task-safe: no locks):
// it returns its integer argument, fails for odd ones and panics for multiples of five.
func oddFails(params []*variants.Variant, ops variants.IVariantOperations) (*variants.Variant, error) {
	if len(params) != 1 || params[0] == nil || params[0].Type() != variants.Integer {
		return variants.VariantFromInteger(0), nil
	}
	n := params[0].AsInteger()
	if n%5 == 0 && n != 0 {
		panic(PanicValue(n)) // texts, errors, and values that are awkward to report (typed nil error at 40, struct at 45, ...)
	}
	if n%2 != 0 {
		return nil, errOdd
	}
	return variants.VariantFromInteger(n), nil
}

// scaleBy is a caller-supplied delegate whose behaviour differs per collection (task-safe).
func scaleBy(k int) functions.FunctionCalculator {
	return func(params []*variants.Variant, ops variants.IVariantOperations) (*variants.Variant, error) {
		if len(params) != 1 || params[0] == nil || params[0].Type() != variants.Integer {
			return variants.VariantFromInteger(-k), nil
		}
		return variants.VariantFromInteger(params[0].AsInteger() * k), nil
	}
}
