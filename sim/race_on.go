//go:build race

package sim

import "runtime"

const RaceBuild = true

func raceDisable() { runtime.RaceDisable() }
func raceEnable()  { runtime.RaceEnable() }
