package sim

import (
	"fmt"
	"sort"
	"strings"

	"github.com/pip-services3-gox/pip-services3-expressions-gox/calculator"
	"github.com/pip-services3-gox/pip-services3-expressions-gox/calculator/functions"
	cparsers "github.com/pip-services3-gox/pip-services3-expressions-gox/calculator/parsers"
	"github.com/pip-services3-gox/pip-services3-expressions-gox/calculator/variables"
	"github.com/pip-services3-gox/pip-services3-expressions-gox/mustache"
	mparsers "github.com/pip-services3-gox/pip-services3-expressions-gox/mustache/parsers"
	"github.com/pip-services3-gox/pip-services3-expressions-gox/variants"
)

// C18 – variables are discovered exactly and names resolve case-insensitively.
// (a) collection operation histories against an ordered-list model;
// (b) SetExpression / SetTemplate histories on one calculator / template with
// auto-variables, user edits, removals and evaluations (DESIGN §4.6).

type propC18 struct{}

func init() { Register(propC18{}) }

func (propC18) ID() string { return "C18" }

// function names for the function-table history: own names in several letter
// cases plus two that collide with default functions (the default, added first, must win)
var c18FnNames = []string{"Foo", "FOO", "foo", "bar_1", "Bar_1", "Max", "PI", "Ticks", "sum", "Array"}

var c18Names = []string{"a", "A", "b", "Bee", "bEE", "x1", "X1", "_v", "total", "TOTAL", "Total",
	"xⱥ", "XȺ", "nɐ", "NⱯ", "r%d", "R%D", "p$1", "é", "É"}

func (propC18) Gen(r *Rand) *Plan {
	p := &Plan{}
	switch r.Weighted([]int{3, 2, 5, 3}) {
	case 0, 1:
		p.Scenario = "varcoll"
		if r.Bool(0.4) {
			p.Scenario = "funccoll"
		}
		n := r.Range(3, 30*r.Size())
		var ops []Op
		for i := 0; i < n; i++ {
			name := r.Pick(c18Names)
			v := GenValue(r, r.Pick([]string{"int", "str", "bool"}))
			switch r.Weighted([]int{8, 3, 2, 4, 4, 3, 3, 3, 1, 1, 2, 2}) {
			case 11:
				ops = append(ops, Op{Op: "mutvalue", S: name, V: &v})
			case 0:
				ops = append(ops, Op{Op: "add", S: name, V: &v})
			case 1:
				ops = append(ops, Op{Op: "get", I: r.Intn(6)})
			case 2:
				ops = append(ops, Op{Op: "getall-mutate", I: r.Intn(6)})
			case 3:
				ops = append(ops, Op{Op: "findindex", S: name})
			case 4:
				ops = append(ops, Op{Op: "find", S: name})
			case 5:
				ops = append(ops, Op{Op: "locate", S: name})
			case 6:
				ops = append(ops, Op{Op: "remove", I: r.Intn(6)})
			case 7:
				ops = append(ops, Op{Op: "removebyname", S: name})
			case 8:
				ops = append(ops, Op{Op: "clear"})
			case 9:
				ops = append(ops, Op{Op: "clearvalues"})
			case 10:
				ops = append(ops, Op{Op: "setvalue", S: name, V: &v})
			}
		}
		p.Tasks = []TaskPlan{{Ops: ops}}
		p.Config = map[string]string{"obs": fmt.Sprint(r.ObsStride())}
	case 2:
		p.Scenario = "calc"
		n := r.Range(2, 12*r.Size())
		var ops []Op
		for i := 0; i < n; i++ {
			switch r.Weighted([]int{6, 2, 3, 2, 1, 5, 2, 2, 1, 3, 1}) {
			case 10: // remove by position, default functions included
				ops = append(ops, Op{Op: "removefnidx", I: r.Intn(45), H: r.Intn(2)})
			case 7:
				ops = append(ops, Op{Op: "addfn", S: r.Pick(c18FnNames), H: r.Intn(2)})
			case 8:
				ops = append(ops, Op{Op: "removefn", S: r.Pick(c18FnNames), H: r.Intn(2)})
			case 9:
				ops = append(ops, Op{Op: "callfn", S: flipCase(r, r.Pick(c18FnNames)), H: r.Intn(2)})
			case 0:
				ops = append(ops, c18GenSetExpr(r))
			case 1:
				ops = append(ops, Op{Op: "autovars", I: r.Intn(2)})
			case 2:
				v := GenValue(r, "int")
				ops = append(ops, Op{Op: "setvar", S: r.Pick(append(append([]string{}, exprVarPool...), "A", "TOTAL", "X1")), V: &v})
			case 3:
				ops = append(ops, Op{Op: "removevar", S: r.Pick(append(append([]string{}, exprVarPool...), "A", "TOTAL"))})
			case 4:
				ops = append(ops, Op{Op: r.Pick([]string{"clearvars", "clearvars", "clearall"})})
			case 5:
				ops = append(ops, Op{Op: "eval"})
			case 6:
				ops = append(ops, Op{Op: "evalx", S: r.Pick(exprVarPool)})
			}
		}
		p.Tasks = []TaskPlan{{Ops: ops}}
	default:
		p.Scenario = "tmpl"
		n := r.Range(2, 10*r.Size())
		var ops []Op
		for i := 0; i < n; i++ {
			switch r.Weighted([]int{6, 2, 3, 2, 3, 1, 1}) {
			case 5:
				ops = append(ops, Op{Op: "setdefaults", S: r.Pick(tmplVarPool), S2: r.Pick([]string{"", "d"})})
			case 6:
				ops = append(ops, Op{Op: "clearall"})
			case 0:
				g := NewTmplGen(r)
				text := g.Gen(2)
				ops = append(ops, Op{Op: "settmpl", S: text, Ss: append([]string{}, g.VarSeq...)})
			case 1:
				ops = append(ops, Op{Op: "autovars", I: r.Intn(2)})
			case 2:
				ops = append(ops, Op{Op: "setvar", S: r.Pick(append(append([]string{}, tmplVarPool...), "NAME", "A")), S2: r.Pick([]string{"", "v", "W"})})
			case 3:
				ops = append(ops, Op{Op: "removevar", S: r.Pick(tmplVarPool)})
			case 4:
				ops = append(ops, Op{Op: "eval"})
			}
		}
		p.Tasks = []TaskPlan{{Ops: ops}}
	}
	return p
}

// c18GenSetExpr generates a setexpr op: S = text, Ss = variable names in
// order of first occurrence, S2 = "simple" when the expression cannot fail
// for any reason but a missing variable / function, J = 1 if it calls an
// unknown function (named in Vs[0].S).
func c18GenSetExpr(r *Rand) Op {
	if r.Bool(0.5) {
		// simple: sums and products of variables, quoted identifiers and literals
		var names []string
		seen := map[string]bool{}
		size := r.Size()
		nterms := r.Range(1, 5)
		varPool := exprVarPool
		if size >= 3 {
			// many distinct variables, most of them occurring more than once
			nterms = r.Range(4, 14*size)
			varPool = nil
			for k := 0; k < 5*size; k++ {
				varPool = append(varPool, fmt.Sprintf("v%d", k))
			}
		}
		var parts []string
		unknownFn := ""
		for i := 0; i < nterms; i++ {
			switch r.Intn(6) {
			case 0:
				parts = append(parts, fmt.Sprint(r.Intn(9)))
			case 1:
				// quoted identifier: a variable whose name needs quoting
				// (among them names spelled like keywords and constants: quoted, they are variables)
				n := r.Pick([]string{"my var", "x-y", "Total", "rate%d", "a%sb", "x%%y", "p$1", "tⱥx", "in", "NULL", "true", "Not", "like", "is", "and", "Or", "xor", "False"})
				if !seen[strings.ToUpper(n)] {
					seen[strings.ToUpper(n)] = true
					names = append(names, n)
				} else {
					for _, f := range names {
						if strings.EqualFold(f, n) {
							n = f
						}
					}
				}
				parts = append(parts, "\""+n+"\"")
			case 2:
				if unknownFn == "" && r.Bool(0.3) {
					unknownFn = r.Pick([]string{"Nope", "frobnicate", "a1"})
					parts = append(parts, unknownFn+"(1)")
					continue
				}
				fallthrough
			default:
				n := r.Pick(varPool)
				if !seen[strings.ToUpper(n)] {
					seen[strings.ToUpper(n)] = true
					names = append(names, n)
				} else {
					for _, f := range names {
						if strings.EqualFold(f, n) {
							n = f
						}
					}
					if r.Bool(0.3) {
						n = flipCase(r, n)
					}
				}
				parts = append(parts, n)
			}
		}
		text := parts[0]
		for _, q := range parts[1:] {
			text += r.Pick([]string{" + ", " * ", "-", " + 'a' + ", " /* AND b */ + "}) + q
		}
		// function names that look like variables, keywords in other case, string constants
		if r.Bool(0.3) {
			text = "Sum(" + text + ", 1)"
		}
		o := Op{Op: "setexpr", S: text, Ss: names, S2: "simple"}
		if unknownFn != "" {
			o.J = 1
			o.Vs = []Val{VStr(unknownFn)}
		}
		return o
	}
	g := NewExprGen(r)
	text := g.Top()
	return Op{Op: "setexpr", S: text, Ss: append([]string{}, g.VarSeq...), S2: "rich"}
}

type c18Entry struct {
	name string
	val  Val
}

func c18Find(list []c18Entry, name string) int {
	for i, e := range list {
		if strings.EqualFold(e.name, name) {
			return i
		}
	}
	return -1
}

func (propC18) Exec(p *Plan, x *Ctx) *Outcome {
	out := NewOutcome()
	if len(p.Tasks) == 0 {
		return out
	}
	ops := p.Tasks[0].Ops
	run := NewRun(0)
	changes := 0
	var body func()
	switch p.Scenario {
	case "varcoll", "funccoll":
		body = func() { changes = c18Collections(p.Scenario, ops, run, out, p.Stride()) }
	case "tmpl":
		body = func() { changes = c18Template(ops, run, out) }
	default:
		body = func() { changes = c18Calculator(ops, run, out) }
	}
	t := run.AddTask(body)
	run.Schedule(&ReplayChooser{})
	if t.PanicVal != nil {
		if sb, ok := t.PanicVal.(StepBudgetExceeded); ok {
			out.Violate("liveness", "C18/step-budget", "%v", sb)
		} else {
			out.Violate("no-panic", "C18/panic/"+p.Scenario, "operation panicked: %v", t.PanicVal)
		}
	}
	out.Steps = run.Steps()
	out.Nontrivial = len(ops) >= 3 && changes >= 1
	out.CaseSig = HashJSON(struct {
		S string
		O []Op
	}{p.Scenario, ops})
	return out
}

type c18Fn struct {
	name string
	id   int
}

func (f *c18Fn) Name() string { return f.name }
func (f *c18Fn) Calculate(params []*variants.Variant, ops variants.IVariantOperations) (*variants.Variant, error) {
	return variants.VariantFromInteger(f.id), nil
}

func c18Collections(kind string, ops []Op, run *Run, out *Outcome, stride int) int {
	changes := 0
	vc := variables.NewVariableCollection()
	fc := functions.NewFunctionCollection()
	var model []c18Entry // for funccoll val.I is the function id
	nextID := 0
	isVar := kind == "varcoll"
	fail := func(i int, o Op, format string, a ...any) {
		out.Violate("list-model", fmt.Sprintf("C18/%s/%s", kind, o.Op), "op %d (%s %q %d): %s; model list %s", i, o.Op, o.S, o.I, fmt.Sprintf(format, a...), c18ModelStr(model))
	}
	// full comparison of the collection with the model
	compare := func(i int, o Op) bool {
		if isVar {
			if vc.Length() != len(model) {
				fail(i, o, "Length() = %d, model %d", vc.Length(), len(model))
				return false
			}
			all := vc.GetAll()
			if len(all) != len(model) {
				fail(i, o, "GetAll() has %d entries, model %d", len(all), len(model))
				return false
			}
			for j, e := range model {
				g := vc.Get(j)
				if g == nil || g.Name() != e.name || !FromVariant(g.Value()).Equal(e.val) || all[j] != g {
					fail(i, o, "entry %d is %v, model %s=%s", j, c18VarStr(g), e.name, e.val)
					return false
				}
			}
		} else {
			if fc.Length() != len(model) {
				fail(i, o, "Length() = %d, model %d", fc.Length(), len(model))
				return false
			}
			all := fc.GetAll()
			for j, e := range model {
				g := fc.Get(j)
				f, _ := g.(*c18Fn)
				if f == nil || f.name != e.name || int64(f.id) != e.val.I || len(all) != len(model) || all[j] != g {
					fail(i, o, "entry %d differs from model %s#%d", j, e.name, e.val.I)
					return false
				}
			}
		}
		return true
	}
	for i, o := range ops {
		run.ResetOpSteps()
		switch o.Op {
		case "add":
			if o.S == "" {
				continue
			}
			if isVar {
				v := VNull()
				if o.V != nil {
					v = *o.V
				}
				vc.Add(variables.NewVariable(o.S, v.ToVariant()))
				model = append(model, c18Entry{o.S, v})
			} else {
				nextID++
				fc.Add(&c18Fn{name: o.S, id: nextID})
				model = append(model, c18Entry{o.S, VInt(nextID)})
			}
			changes++
		case "get":
			if o.I < 0 || o.I >= len(model) {
				continue
			}
			// covered by compare
		case "getall-mutate":
			// mutating the returned slice must not change the collection
			if isVar {
				all := vc.GetAll()
				if len(all) > 0 {
					all[o.I%len(all)] = variables.NewVariable("intruder", nil)
					all = append(all[:0], all[1:]...)
				}
			} else {
				all := fc.GetAll()
				if len(all) > 0 {
					all[o.I%len(all)] = &c18Fn{name: "intruder"}
					all = append(all[:0], all[1:]...)
				}
			}
			out.Probes["getall_mutated"]++
		case "findindex":
			want := c18Find(model, o.S)
			got := 0
			if isVar {
				got = vc.FindIndexByName(o.S)
			} else {
				got = fc.FindIndexByName(o.S)
			}
			if got != want {
				fail(i, o, "FindIndexByName = %d, model %d", got, want)
				return changes
			}
			if want >= 0 && model[want].name != o.S {
				out.Probes["case_insensitive_hit"]++
			}
		case "find":
			want := c18Find(model, o.S)
			if isVar {
				g := vc.FindByName(o.S)
				if (g == nil) != (want < 0) || (g != nil && g != vc.Get(want)) {
					fail(i, o, "FindByName gives %v, model index %d", c18VarStr(g), want)
					return changes
				}
			} else {
				g := fc.FindByName(o.S)
				if (g == nil) != (want < 0) || (g != nil && g != fc.Get(want)) {
					fail(i, o, "FindByName gives %v, model index %d", g, want)
					return changes
				}
			}
			if want >= 0 {
				dups := 0
				for _, e := range model {
					if strings.EqualFold(e.name, o.S) {
						dups++
					}
				}
				if dups > 1 {
					out.Probes["first_added_wins_checked"]++
				}
			}
		case "locate":
			if !isVar || o.S == "" {
				continue
			}
			want := c18Find(model, o.S)
			g := vc.Locate(o.S)
			if want < 0 {
				model = append(model, c18Entry{o.S, VNull()})
				changes++
				if g == nil || g.Name() != o.S {
					fail(i, o, "Locate of a new name returned %v", c18VarStr(g))
					return changes
				}
			} else if g != vc.Get(want) {
				fail(i, o, "Locate returned %v, model index %d", c18VarStr(g), want)
				return changes
			}
		case "remove":
			if o.I < 0 || o.I >= len(model) {
				continue
			}
			if isVar {
				vc.Remove(o.I)
			} else {
				fc.Remove(o.I)
			}
			model = append(append([]c18Entry{}, model[:o.I]...), model[o.I+1:]...)
			changes++
		case "removebyname":
			if isVar {
				vc.RemoveByName(o.S)
			} else {
				fc.RemoveByName(o.S)
			}
			if j := c18Find(model, o.S); j >= 0 {
				model = append(append([]c18Entry{}, model[:j]...), model[j+1:]...)
				changes++
			}
		case "clear":
			if isVar {
				vc.Clear()
			} else {
				fc.Clear()
			}
			model = nil
			changes++
		case "clearvalues":
			if !isVar {
				continue
			}
			vc.ClearValues()
			for j := range model {
				model[j].val = VNull()
			}
			changes++
		case "mutvalue":
			// the value object of one entry is changed in place (through Value()), not replaced
			if !isVar || o.V == nil {
				continue
			}
			if j := c18Find(model, o.S); j >= 0 {
				vc.FindByName(o.S).Value().Assign(o.V.ToVariant())
				model[j].val = *o.V
				changes++
				out.Probes["value_object_changed_in_place"]++
			}
		case "setvalue":
			if !isVar || o.V == nil {
				continue
			}
			if j := c18Find(model, o.S); j >= 0 {
				vc.FindByName(o.S).SetValue(o.V.ToVariant())
				model[j].val = *o.V
				changes++
			}
		default:
			continue
		}
		out.Event("%s %s %d", o.Op, o.S, o.I)
		out.State(kind, len(model), o.Op)
		if !Observe(stride, i, len(ops)) {
			continue
		}
		if !compare(i, o) {
			return changes
		}
	}
	return changes
}

func c18VarStr(v variables.IVariable) string {
	if v == nil {
		return "<nil>"
	}
	return v.Name() + "=" + FromVariant(v.Value()).String()
}

func c18ModelStr(m []c18Entry) string {
	parts := make([]string, len(m))
	for i, e := range m {
		parts[i] = e.name + "=" + e.val.String()
	}
	return "[" + strings.Join(parts, ", ") + "]"
}

// c18CheckNames compares reported variable names with the generator's.
// Reported names may merge names that differ by case only, but no name may be
// reported twice, none may be missing, none may be extra, and the order is the
// order of first occurrence.
func c18CheckNames(reported, want []string) string {
	seen := map[string]bool{}
	for _, n := range reported {
		if seen[n] {
			return fmt.Sprintf("name %q is reported twice in %q", n, reported)
		}
		seen[n] = true
	}
	// case-insensitive first-occurrence projection of both lists
	proj := func(l []string) []string {
		var out []string
		s := map[string]bool{}
		for _, n := range l {
			u := strings.ToUpper(n)
			if !s[u] {
				s[u] = true
				out = append(out, u)
			}
		}
		return out
	}
	a, b := proj(reported), proj(want)
	if strings.Join(a, "\x00") != strings.Join(b, "\x00") {
		return fmt.Sprintf("reported variable names %q, the identifiers in variable position are %q (in order of first occurrence)", reported, want)
	}
	return ""
}

func c18Calculator(ops []Op, run *Run, out *Outcome) int {
	changes := 0
	calc := calculator.NewExpressionCalculator()
	auto := true
	var model []c18Entry // default variable collection
	var curVars []string // variables of the current expression
	curSimple := false
	curUnknownFn := ""
	haveExpr := false
	defaultRemoved := false                      // a default function was removed from this calculator: generated expressions may now lack a function
	curFn := ""                                  // function called by the current expression when it was set by callfn
	fnKnown := func(string) bool { return true } // set below, once the function model exists
	// The default collection is compared as a set keyed by the upper-cased name: the statement fixes
	// "exactly one entry per name compared case-insensitively, keeping entries and values already
	// there", not the spelling or the position of entries that auto-variables add.
	compareDefaults := func(i int, o Op) bool {
		dv := calc.DefaultVariables()
		got := map[string]string{}
		for _, v := range dv.GetAll() {
			u := strings.ToUpper(v.Name())
			if _, dup := got[u]; dup {
				out.Violate("auto-variables", "C18/calc/defaults/"+o.Op, "op %d (%s %q): default collection %s holds two entries for %q", i, o.Op, o.S, c18CollStr(dv), v.Name())
				return false
			}
			got[u] = FromVariant(v.Value()).String()
		}
		want := map[string]string{}
		for _, e := range model {
			u := strings.ToUpper(e.name)
			if _, dup := want[u]; !dup {
				want[u] = e.val.String()
			}
		}
		if len(got) != len(want) {
			out.Violate("auto-variables", "C18/calc/defaults/"+o.Op, "op %d (%s %q): default collection %s, model %s", i, o.Op, o.S, c18CollStr(dv), c18ModelStr(model))
			return false
		}
		for u, v := range want {
			if got[u] != v {
				out.Violate("auto-variables", "C18/calc/defaults/"+o.Op, "op %d (%s %q): default collection %s, model %s", i, o.Op, o.S, c18CollStr(dv), c18ModelStr(model))
				return false
			}
		}
		return true
	}
	missing := func(coll []c18Entry) []string {
		var m []string
		for _, n := range curVars {
			if c18Find(coll, n) < 0 {
				m = append(m, n)
			}
		}
		return m
	}
	checkEval := func(i int, o Op, coll []c18Entry, res *variants.Variant, err error) bool {
		miss := missing(coll)
		if defaultRemoved && curFn == "" && ErrCode(err) == "FUNC_NOT_FOUND" {
			return true // the generated expression may call a default function that this history removed
		}
		curUnknownFn := curUnknownFn
		if curFn != "" && !fnKnown(curFn) {
			curUnknownFn = curFn
		}
		code := ErrCode(err)
		msg := ErrMessage(err)
		if code == "VAR_NOT_FOUND" {
			named := false
			for _, n := range miss {
				if strings.Contains(strings.ToUpper(msg), strings.ToUpper(n)) {
					named = true
				}
			}
			if !named {
				out.Violate("missing-variable", "C18/calc/var-not-found-wrong-name", "op %d: error %q but the missing variables are %q (collection %s)", i, msg, miss, c18ModelStr(coll))
				return false
			}
			out.Probes["var_not_found_named"]++
		} else if len(miss) == 0 && code == "FUNC_NOT_FOUND" {
			if curUnknownFn == "" || !strings.Contains(strings.ToUpper(msg), strings.ToUpper(curUnknownFn)) {
				if curSimple {
					out.Violate("missing-function", "C18/calc/func-not-found-wrong-name", "op %d: error %q, unknown function in the expression: %q", i, msg, curUnknownFn)
					return false
				}
			} else {
				out.Probes["func_not_found_named"]++
			}
		}
		names := func(list []string) bool {
			for _, n := range list {
				if n != "" && strings.Contains(strings.ToUpper(msg), strings.ToUpper(n)) {
					return true
				}
			}
			return false
		}
		if curSimple {
			// the error code is not fixed by the statement: "reported as an error naming it"
			switch {
			case len(miss) > 0 && !(err != nil && (names(miss) || names([]string{curUnknownFn}))):
				out.Violate("missing-variable", "C18/calc/missing-variable-not-reported", "op %d: variables %q are missing from %s but evaluation gave result %s error %q", i, miss, c18ModelStr(coll), FromVariant(res), msg)
				return false
			case len(miss) == 0 && curUnknownFn != "" && !(err != nil && names([]string{curUnknownFn})):
				out.Violate("missing-function", "C18/calc/missing-function-not-reported", "op %d: function %q does not exist but evaluation gave result %s error %q", i, curUnknownFn, FromVariant(res), msg)
				return false
			case len(miss) == 0 && curUnknownFn == "" && (code == "VAR_NOT_FOUND" || code == "FUNC_NOT_FOUND"):
				out.Violate("missing-variable", "C18/calc/spurious-not-found", "op %d: nothing is missing (collection %s) but evaluation says %q", i, c18ModelStr(coll), msg)
				return false
			}
		} else if len(miss) == 0 && code == "VAR_NOT_FOUND" {
			out.Violate("missing-variable", "C18/calc/spurious-not-found", "op %d: nothing is missing but evaluation says %q", i, msg)
			return false
		}
		return true
	}
	type fnEntry struct {
		name string
		id   int
	}
	// two calculators are alive: their function tables must be independent
	calc2 := calculator.NewExpressionCalculator()
	fnModels := [2][]fnEntry{} // the whole function table per calculator: the 37 defaults (id 0), then custom ones
	for w := 0; w < 2; w++ {
		for _, d := range c08Names {
			fnModels[w] = append(fnModels[w], fnEntry{d, 0})
		}
	}
	tableOK := func(i int, o Op) bool {
		for w, c := range []*calculator.ExpressionCalculator{calc, calc2} {
			all := c.DefaultFunctions().GetAll()
			if len(all) != len(fnModels[w]) {
				out.Violate("list-model", "C18/calc/function-table/"+o.Op, "op %d (%s %q): calculator %d has %d functions, model %d", i, o.Op, o.S, w, len(all), len(fnModels[w]))
				return false
			}
			for j, f := range all {
				if f.Name() != fnModels[w][j].name {
					out.Violate("list-model", "C18/calc/function-table/"+o.Op, "op %d (%s %q): calculator %d function %d is %q, model %q", i, o.Op, o.S, w, j, f.Name(), fnModels[w][j].name)
					return false
				}
			}
		}
		return true
	}
	nextFn := 1000
	// resolve: what calling name on calculator w must reach: (found, custom id or 0 for a default)
	resolve := func(w int, name string) (bool, int) {
		for _, f := range fnModels[w] {
			if strings.EqualFold(f.name, name) {
				return true, f.id
			}
		}
		return false, 0
	}
	fnKnown = func(name string) bool {
		ok, _ := resolve(0, name)
		return ok
	}
	for i, o := range ops {
		run.ResetOpSteps()
		switch o.Op {
		case "addfn":
			if o.S == "" {
				continue
			}
			nextFn++
			which := o.H & 1
			c := calc
			if which == 1 {
				c = calc2
			}
			c.DefaultFunctions().Add(&c18Fn{name: o.S, id: nextFn})
			fnModels[which] = append(fnModels[which], fnEntry{o.S, nextFn})
			changes++
		case "removefnidx":
			which := o.H & 1
			c := calc
			if which == 1 {
				c = calc2
			}
			if len(fnModels[which]) == 0 {
				continue
			}
			j := o.I % len(fnModels[which])
			if j < 0 {
				j = -j
			}
			c.DefaultFunctions().Remove(j)
			if which == 0 && fnModels[which][j].id == 0 {
				defaultRemoved = true
			}
			fnModels[which] = append(append([]fnEntry{}, fnModels[which][:j]...), fnModels[which][j+1:]...)
			changes++
			out.Probes["function_removed_by_index"]++
			if !tableOK(i, o) {
				return changes
			}
		case "removefn":
			which := o.H & 1
			c := calc
			if which == 1 {
				c = calc2
			}
			c.DefaultFunctions().RemoveByName(o.S)
			for j, f := range fnModels[which] {
				if strings.EqualFold(f.name, o.S) {
					if which == 0 && f.id == 0 {
						defaultRemoved = true
					}
					fnModels[which] = append(append([]fnEntry{}, fnModels[which][:j]...), fnModels[which][j+1:]...)
					changes++
					break
				}
			}
		case "callfn":
			if o.S == "" {
				continue
			}
			args := "()"
			if strings.EqualFold(o.S, "max") || strings.EqualFold(o.S, "sum") {
				args = "(1, 2)"
			}
			which := o.H & 1
			c := calc
			if which == 1 {
				c = calc2
				out.Probes["second_calculator_called"]++
			}
			if err := c.SetExpression(o.S + args); err != nil {
				out.Observations["setexpr_error"]++
				if which == 0 {
					haveExpr = false
				}
				continue
			}
			if which == 0 {
				haveExpr, curVars, curSimple, curUnknownFn, curFn = true, nil, true, "", o.S
			}
			res, err := evalNoPanic(func() (*variants.Variant, error) { return c.Evaluate() }, out)
			found, want := resolve(which, o.S)
			got := FromVariant(res)
			switch {
			case found && want == 0:
				// a default function is first under that name: a custom one added later must not be reached
				if err == nil && got.T == "Integer" && got.I >= 1000 {
					out.Violate("first-added-wins", "C18/calc/function-shadowed-default", "op %d: %s%s evaluated to %s: a custom function added later was called instead of the default one", i, o.S, args, got)
					return changes
				}
				if ErrCode(err) == "FUNC_NOT_FOUND" || (err != nil && strings.Contains(strings.ToLower(ErrMessage(err)), "not found")) {
					out.Violate("missing-function", "C18/calc/default-function-lost", "op %d: calculator %d no longer finds the default function %q although it was never removed from it: %q", i, which, o.S, ErrMessage(err))
					return changes
				}
				out.Probes["default_function_wins_checked"]++
			case found:
				if err != nil || got.T != "Integer" || int(got.I) != want {
					out.Violate("first-added-wins", "C18/calc/function-resolution", "op %d: %s() on calculator %d gives %s err %v; the first function added under that name (case-insensitively) returns %d", i, o.S, which, got, err, want)
					return changes
				}
				out.Probes["custom_function_resolved"]++
			default:
				if err == nil || !strings.Contains(strings.ToUpper(ErrMessage(err)), strings.ToUpper(o.S)) {
					out.Violate("missing-function", "C18/calc/missing-function-not-reported", "op %d: no function %q exists in calculator %d but evaluation gave %s err %q", i, o.S, which, got, ErrMessage(err))
					return changes
				}
				out.Probes["func_not_found_named"]++
			}
			if !tableOK(i, o) {
				return changes
			}
		case "setexpr":
			err := calc.SetExpression(o.S)
			if err != nil {
				out.Observations["setexpr_error"]++
				haveExpr = false
				// a failed parse must not have touched the defaults
				if !compareDefaults(i, o) {
					return changes
				}
				continue
			}
			haveExpr = true
			curFn = ""
			curVars, curSimple, curUnknownFn = o.Ss, o.S2 == "simple", ""
			if o.J == 1 && len(o.Vs) > 0 {
				curUnknownFn = o.Vs[0].S
			}
			// discovery: names reported by the calculator's parser
			names := calcVariableNames(calc)
			if msg := c18CheckNames(names, o.Ss); msg != "" {
				out.Violate("discovery", "C18/calc/variable-names", "op %d: expression %q: %s", i, o.S, msg)
				return changes
			}
			ep := cparsers.NewExpressionParser()
			if err := ep.ParseString(o.S); err == nil {
				if msg := c18CheckNames(ep.VariableNames(), o.Ss); msg != "" {
					out.Violate("discovery", "C18/parser/variable-names", "op %d: expression %q: %s", i, o.S, msg)
					return changes
				}
			}
			if auto {
				for _, n := range o.Ss {
					if c18Find(model, n) < 0 {
						model = append(model, c18Entry{n, VNull()})
					}
				}
				out.Probes["auto_variables_applied"]++
			}
			changes++
		case "autovars":
			auto = o.I == 1
			calc.SetAutoVariables(auto)
		case "setvar":
			if o.S == "" || o.V == nil {
				continue
			}
			calc.DefaultVariables().Locate(o.S).SetValue(o.V.ToVariant())
			if j := c18Find(model, o.S); j >= 0 {
				model[j].val = *o.V
			} else {
				model = append(model, c18Entry{o.S, *o.V})
			}
			changes++
		case "removevar":
			calc.DefaultVariables().RemoveByName(o.S)
			if j := c18Find(model, o.S); j >= 0 {
				model = append(append([]c18Entry{}, model[:j]...), model[j+1:]...)
				changes++
				out.Probes["default_variable_removed"]++
			}
		case "clearvars":
			calc.DefaultVariables().Clear()
			model = nil
			changes++
		case "clearall":
			calc.Clear() // forgets the expression and the default variables
			model = nil
			haveExpr, curVars, curFn, curUnknownFn = false, nil, "", ""
			changes++
			out.Probes["calculator_cleared"]++
		case "eval":
			if !haveExpr {
				continue
			}
			res, err := evalNoPanic(func() (*variants.Variant, error) { return calc.Evaluate() }, out)
			if !checkEval(i, o, model, res, err) {
				return changes
			}
		case "evalx":
			if !haveExpr {
				continue
			}
			// explicit collection holding every variable of the expression except o.S
			var coll []c18Entry
			vc := variables.NewVariableCollection()
			for _, n := range curVars {
				if strings.EqualFold(n, o.S) {
					continue
				}
				coll = append(coll, c18Entry{n, VInt(1)})
				vc.Add(variables.NewVariable(n, variants.VariantFromInteger(1)))
			}
			res, err := evalNoPanic(func() (*variants.Variant, error) { return calc.EvaluateUsingVariables(vc) }, out)
			if !checkEval(i, o, coll, res, err) {
				return changes
			}
		default:
			continue
		}
		out.Event("%s %q", o.Op, o.S)
		out.State("calc", len(model), auto, o.Op)
		if !compareDefaults(i, o) {
			return changes
		}
	}
	return changes
}

// evalNoPanic turns a panic of an evaluation into an observation (C03's
// business) and a generic error so that C18's oracles see "some failure".
func evalNoPanic(f func() (*variants.Variant, error), out *Outcome) (res *variants.Variant, err error) {
	defer func() {
		if p := recover(); p != nil {
			if sb, ok := p.(StepBudgetExceeded); ok {
				panic(sb)
			}
			out.Observations["panic_in_evaluation"]++
			res, err = nil, fmt.Errorf("panic: %v", p)
		}
	}()
	return f()
}

func calcVariableNames(c *calculator.ExpressionCalculator) []string {
	// the calculator exposes the parser's names only through CreateVariables
	vc := variables.NewVariableCollection()
	c.CreateVariables(&recordingCollection{VariableCollection: vc})
	var names []string
	for _, v := range vc.GetAll() {
		names = append(names, v.Name())
	}
	return names
}

// recordingCollection records every name CreateVariables asks for, in order,
// by never finding anything.
type recordingCollection struct {
	*variables.VariableCollection
}

func (r *recordingCollection) FindByName(name string) variables.IVariable { return nil }

func c18CollStr(c variables.IVariableCollection) string {
	var parts []string
	for _, v := range c.GetAll() {
		parts = append(parts, c18VarStr(v))
	}
	return "[" + strings.Join(parts, ", ") + "]"
}

func c18Template(ops []Op, run *Run, out *Outcome) int {
	changes := 0
	t := mustache.NewMustacheTemplate()
	auto := true
	model := map[string]string{} // default variables
	for i, o := range ops {
		run.ResetOpSteps()
		switch o.Op {
		case "settmpl":
			err := t.SetTemplate(o.S)
			if err != nil {
				out.Observations["settmpl_error"]++
				continue
			}
			// names via CreateVariables on an empty map (order is lost in a map), and via the parser-backed accessor
			names := tmplVariableNames(t)
			if msg := c18CheckNamesSet(names, o.Ss); msg != "" {
				out.Violate("discovery", "C18/tmpl/variable-names", "op %d: template %q: %s", i, o.S, msg)
				return changes
			}
			mp := mparsers.NewMustacheParser()
			if err := mp.ParseString(o.S); err == nil {
				if msg := c18CheckNames(mp.VariableNames(), o.Ss); msg != "" {
					out.Violate("discovery", "C18/mustache-parser/variable-names", "op %d: template %q: %s", i, o.S, msg)
					return changes
				}
			}
			if auto {
				for _, n := range o.Ss {
					found := false
					for k := range model {
						if strings.EqualFold(k, n) {
							found = true
						}
					}
					if !found {
						model[n] = ""
					}
				}
				out.Probes["auto_variables_applied"]++
			}
			changes++
		case "autovars":
			auto = o.I == 1
			t.SetAutoVariables(auto)
		case "setvar":
			if o.S == "" {
				continue
			}
			t.DefaultVariables()[o.S] = o.S2
			model[o.S] = o.S2
			changes++
		case "setdefaults":
			// the caller installs a map of its own as default variables
			t.SetDefaultVariables(map[string]string{o.S: o.S2})
			model = map[string]string{o.S: o.S2}
			changes++
		case "clearall":
			t.Clear()
			model = map[string]string{}
			changes++
		case "removevar":
			delete(t.DefaultVariables(), o.S)
			if _, ok := model[o.S]; ok {
				out.Probes["default_variable_removed"]++
			}
			delete(model, o.S)
			changes++
		case "eval":
			func() {
				defer func() {
					if p := recover(); p != nil {
						if sb, ok := p.(StepBudgetExceeded); ok {
							panic(sb)
						}
						out.Observations["panic_in_evaluation"]++
					}
				}()
				t.Evaluate()
			}()
		default:
			continue
		}
		out.Event("%s %q", o.Op, o.S)
		out.State("tmpl", len(model), auto, o.Op)
		// compare default map with the model: same keys (case-insensitively one entry per discovered name), same values
		got := t.DefaultVariables()
		// spelling of keys that auto-variables add is not fixed: compare (upper-cased key, value) multisets
		if snapshotMapUpper(got) != snapshotMapUpper(model) {
			out.Violate("auto-variables", "C18/tmpl/defaults/"+o.Op, "op %d (%s %q): default variables %s, model %s", i, o.Op, o.S, snapshotMap(got), snapshotMap(model))
			return changes
		}
	}
	return changes
}

func tmplVariableNames(t *mustache.MustacheTemplate) []string {
	m := map[string]string{}
	t.CreateVariables(&m)
	var names []string
	for k := range m {
		names = append(names, k)
	}
	sort.Strings(names)
	return names
}

// c18CheckNamesSet is c18CheckNames without the order (names came out of a map).
func c18CheckNamesSet(reported, want []string) string {
	a := map[string]bool{}
	for _, n := range reported {
		u := strings.ToUpper(n)
		if a[u] {
			return fmt.Sprintf("names %q contain two entries that differ by case only or a duplicate", reported)
		}
		a[u] = true
	}
	b := map[string]bool{}
	for _, n := range want {
		b[strings.ToUpper(n)] = true
	}
	for u := range a {
		if !b[u] {
			return fmt.Sprintf("reported variable names %q, identifiers in variable position are %q", reported, want)
		}
	}
	for u := range b {
		if !a[u] {
			return fmt.Sprintf("reported variable names %q, identifiers in variable position are %q", reported, want)
		}
	}
	return ""
}

func snapshotMapUpper(m map[string]string) string {
	var items []string
	for k, v := range m {
		items = append(items, strings.ToUpper(k)+"="+v)
	}
	sort.Strings(items)
	return strings.Join(items, ";")
}
