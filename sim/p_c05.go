package sim

import (
	"fmt"
	"runtime/debug"
	"sort"
	"strings"

	"github.com/pip-services3-gox/pip-services3-expressions-gox/calculator"
	"github.com/pip-services3-gox/pip-services3-expressions-gox/calculator/functions"
	cparsers "github.com/pip-services3-gox/pip-services3-expressions-gox/calculator/parsers"
	ctok "github.com/pip-services3-gox/pip-services3-expressions-gox/calculator/tokenizers"
	"github.com/pip-services3-gox/pip-services3-expressions-gox/calculator/variables"
	"github.com/pip-services3-gox/pip-services3-expressions-gox/csv"
	sio "github.com/pip-services3-gox/pip-services3-expressions-gox/io"
	"github.com/pip-services3-gox/pip-services3-expressions-gox/mustache"
	mparsers "github.com/pip-services3-gox/pip-services3-expressions-gox/mustache/parsers"
	mtok "github.com/pip-services3-gox/pip-services3-expressions-gox/mustache/tokenizers"
	"github.com/pip-services3-gox/pip-services3-expressions-gox/tokenizers"
	"github.com/pip-services3-gox/pip-services3-expressions-gox/tokenizers/generic"
	"github.com/pip-services3-gox/pip-services3-expressions-gox/variants"
)

// C05 – reused instances give history-independent results (DESIGN §4.2).
// Histories of inputs on one reused instance of every tokenizer, parser,
// calculator and template kind, with several consumption modes, has-next
// interleavings and aborts at seams; every step is compared with a fresh
// instance and (for pool inputs) with the result computed before any history.

type propC05 struct{}

func init() { Register(propC05{}) }

func (propC05) ID() string { return "C05" }

var c05Kinds = []string{"gentok", "exprtok", "csvtok", "musttok", "cpptok", "exprparser", "mustparser", "calc", "tmpl"}

func c05Pool(kind string) []string {
	switch kind {
	case "csvtok":
		return poolCsv
	case "musttok", "mustparser", "tmpl":
		return poolMustache
	case "exprparser", "calc":
		return poolExpression
	}
	return poolTokenizer
}

func isTokKind(kind string) bool { return strings.HasSuffix(kind, "tok") }

// instance is one reusable object of the library.
type instance struct {
	kind string
	opts string
	tok  tokenizers.ITokenizer
	ep   *cparsers.ExpressionParser
	mp   *mparsers.MustacheParser
	calc *calculator.ExpressionCalculator
	tmpl *mustache.MustacheTemplate
	// configuration calls applied so far (CSV tokenizer): a fresh reference
	// instance gets the same configuration, not the same inputs
	configs []int
	// calculator only: current operations manager, last expression set successfully (for
	// re-evaluation without SetExpression) and a variable collection that lives as long as
	// the instance and is edited between steps
	lastScanner *SimScanner // tokenizers: the scanner object of the previous step, for re-attaching it
	lastInput   string
	opsSafe     bool
	lastText    string
	parsed      bool
	pvars       *variables.VariableCollection
	pcount      int
}

// freshLike builds a new instance with the configuration history of in.
func (in *instance) freshLike() *instance {
	f := newInstance(in.kind, in.opts)
	for _, c := range in.configs {
		f.configureAs(c, true)
	}
	f.lastText = in.lastText // the fresh instance has to parse it first (parsed stays false)
	f.lastInput = in.lastInput
	return f
}

// c05InnerTexts are what a re-entrant function has its own calculator evaluate: longer than most outer
// expressions, with operators where the outer program has operands.
var c05InnerTexts = []string{"1 + 2 * 3", "Max(1, 2) + Min(3, 4) * 2 - 1", "a + b * c - (a / 1) + 2 * 3 - 4", "1", "(", "zz", "'x' + 1 + 2 + 3 + 4 + 5 + 6 + 7 + 8 + 9"}

// c05DefNames are the standard functions the default-collection edits replace or remove.
var c05DefNames = []string{"Min", "Max", "Abs", "Sum", "If", "Sqrt", "Contains", "Empty", "Array", "Choose"}

// configure applies one reconfiguration: of the CSV tokenizer, or of a calculator's collections.
func (in *instance) configure(which int) { in.configureAs(which, false) }

// configureAs: with canonical set (the fresh reference instance), reconfigurations that go through
// a getter (read the current list, change it in place, hand it back) are replaced by a plain setter
// call with the list that results.
func (in *instance) configureAs(which int, canonical bool) {
	if which < 0 {
		which = -which
	}
	if in.calc != nil {
		switch {
		case which >= 500 && which < 510:
			// the caller empties the default variables, or removes one of them
			if which < 505 {
				in.calc.DefaultVariables().Clear()
			} else {
				in.calc.DefaultVariables().RemoveByName([]string{"a", "B", "c", "zz", "x1"}[which-505])
			}
			// an expression set before this edit is not evaluated again without being set again (a fresh reference,
			// which has to set it first, would have its variables back)
			in.parsed, in.lastText = false, ""
		case which >= 400 && which < 500:
			name := c05DefNames[(which-400)%len(c05DefNames)]
			if which%3 == 1 {
				name = strings.ToUpper(name)
			}
			df := in.calc.DefaultFunctions()
			df.RemoveByName(name)
			if which < 450 {
				marker := -1000 - which
				df.Add(functions.NewDelegatedFunction(name, func(params []*variants.Variant, ops variants.IVariantOperations) (*variants.Variant, error) {
					return variants.VariantFromInteger(marker), nil
				}))
			}
		case which == 100: // switch the operations manager
			in.opsSafe = !in.opsSafe
		case which >= 200 && which < 300: // add variables to the instance's own collection
			for k := 0; k < which-200; k++ {
				in.pvars.Add(variables.NewVariable(fmt.Sprintf("pv%d", in.pcount), variants.VariantFromInteger(in.pcount)))
				in.pcount++
			}
		case which >= 300 && which < 400: // remove one by name
			if in.pcount > 0 {
				name := fmt.Sprintf("pv%d", (which-300)%in.pcount)
				if which%2 == 1 {
					name = strings.ToUpper(name)
				}
				in.pvars.RemoveByName(name)
			}
		default:
			return
		}
		in.configs = append(in.configs, which)
		return
	}
	t, ok := in.tok.(*csv.CsvTokenizer)
	if !ok {
		return
	}
	switch which % 11 {
	case 9: // the current separators, changed in place and handed back
		if canonical {
			t.SetFieldSeparators([]rune{'|'})
		} else if cur := t.FieldSeparators(); len(cur) > 0 {
			for i := range cur {
				cur[i] = '|'
			}
			t.SetFieldSeparators(cur[:1])
		} else {
			t.SetFieldSeparators([]rune{'|'})
		}
	case 10: // the current quote symbols, changed in place and handed back
		if canonical {
			t.SetQuoteSymbols([]rune{'\''})
		} else if cur := t.QuoteSymbols(); len(cur) > 0 {
			for i := range cur {
				cur[i] = '\''
			}
			t.SetQuoteSymbols(cur[:1])
		} else {
			t.SetQuoteSymbols([]rune{'\''})
		}
	case 6: // a quote symbol outside Latin-1
		t.SetFieldSeparators([]rune{','})
		t.SetQuoteSymbols([]rune{'«'})
	case 7: // a field separator outside Latin-1 (fullwidth comma)
		t.SetQuoteSymbols([]rune{'"'})
		t.SetFieldSeparators([]rune{'，'})
	case 8:
		t.SetFieldSeparators([]rune{',', '，'})
		t.SetQuoteSymbols([]rune{'"', '«'})
	case 0:
		t.SetQuoteSymbols([]rune{'"'})
		t.SetFieldSeparators([]rune{';'})
	case 1:
		t.SetQuoteSymbols([]rune{'"'})
		t.SetFieldSeparators([]rune{',', '\t'})
	case 2:
		t.SetFieldSeparators([]rune{','})
		t.SetQuoteSymbols([]rune{'\''})
	case 3:
		t.SetFieldSeparators([]rune{','})
		t.SetQuoteSymbols([]rune{'"', '\''})
	case 4:
		t.SetEndOfLine("\n")
	case 5:
		t.SetFieldSeparators([]rune{','})
		t.SetQuoteSymbols([]rune{'"'})
	}
	in.configs = append(in.configs, which)
}

func newInstance(kind, opts string) *instance {
	in := &instance{kind: kind, opts: opts}
	switch kind {
	case "gentok":
		in.tok = generic.NewGenericTokenizer()
	case "exprtok":
		in.tok = ctok.NewExpressionTokenizer()
	case "csvtok":
		in.tok = csv.NewCsvTokenizer()
	case "musttok":
		in.tok = mtok.NewMustacheTokenizer()
	case "cpptok":
		// a generic tokenizer with C++ style comments on '/'
		g := generic.NewGenericTokenizer()
		g.SetCommentState(generic.NewCppCommentState())
		g.SetCharacterState('/', '/', g.CommentState())
		in.tok = g
	case "exprparser":
		in.ep = cparsers.NewExpressionParser()
	case "mustparser":
		in.mp = mparsers.NewMustacheParser()
	case "calc":
		in.calc = calculator.NewExpressionCalculator()
		in.pvars = variables.NewVariableCollection()
		if strings.Contains(opts, "S") {
			in.opsSafe = true
			in.calc.SetVariantOperations(variants.NewTypeSafeVariantOperations())
		}
	case "tmpl":
		in.tmpl = mustache.NewMustacheTemplate()
	}
	if in.tok != nil && opts != "" && opts != "-" {
		in.tok.SetSkipUnknown(strings.Contains(opts, "u"))
		in.tok.SetSkipWhitespaces(strings.Contains(opts, "w"))
		in.tok.SetSkipComments(strings.Contains(opts, "c"))
		in.tok.SetSkipEof(strings.Contains(opts, "e"))
		in.tok.SetMergeWhitespaces(strings.Contains(opts, "m"))
		in.tok.SetUnifyNumbers(strings.Contains(opts, "n"))
		in.tok.SetDecodeStrings(strings.Contains(opts, "d"))
	}
	return in
}

// stepStats is what a step reports besides its result.
type stepStats struct {
	scannerCalls int
	opsCalls     int
	fnCalls      int
	varCalls     int
	fired        string // fault kind that fired ("" if none)
	libPanic     bool
	panicFn      string // innermost library function of a library panic
	panicMsg     string
	tokens       int
	contentLen   int
	progressBad  string
}

// innermostLibFrame extracts the innermost library function from a stack
// trace taken while panicking.
func innermostLibFrame(stack string) string {
	for _, l := range strings.Split(stack, "\n") {
		if strings.HasPrefix(l, modPrefix) && !strings.Contains(l, "/verifsimrt.") {
			if i := strings.LastIndex(l, "("); i > 0 {
				l = l[:i]
			}
			return shortFn(l)
		}
	}
	return "?"
}

func describeExprTokens(toks []*cparsers.ExpressionToken) string {
	var sb strings.Builder
	for _, t := range toks {
		fmt.Fprintf(&sb, "%d|%s|%d:%d;", t.Type(), FromVariant(t.Value()).String(), t.Line(), t.Column())
	}
	return sb.String()
}

// step performs one history step on the instance and describes everything
// observable about it as a string. at resolves a relative fault position
// against the number of seam calls of a fault-free execution (dry).
func (in *instance) step(o Op, sets []VarSet, dry *stepStats) (res string, st stepStats) {
	f := o.F
	resolve := func(calls int) int {
		if f == nil || calls <= 0 {
			return 0
		}
		a := f.At
		if a < 0 {
			a = -a
		}
		return 1 + a%calls
	}
	defer func() {
		if p := recover(); p != nil {
			switch v := p.(type) {
			case ScannerFailure:
				st.fired = "fail_at"
				res = fmt.Sprintf("scanner-failure@%d", v.Call)
			case StepBudgetExceeded:
				res = "step-budget:" + v.Error()
			default:
				st.libPanic = true
				st.panicFn = innermostLibFrame(string(debug.Stack()))
				st.panicMsg = fmt.Sprint(p)
				res = fmt.Sprintf("panic:%v", p)
			}
		}
	}()
	vs := VarSet{}
	if len(sets) > 0 {
		i := o.Set
		if i < 0 {
			i = -i
		}
		vs = sets[i%len(sets)]
	}
	if o.Op == "config" {
		in.configure(o.I)
		return "configured", st
	}
	switch {
	case in.tok != nil && (o.Op == "strings" || o.Op == "streamstrings"):
		sc := NewSimScanner(o.S, -1, 0)
		var ss []string
		if o.Op == "strings" {
			ss = in.tok.TokenizeBufferToStrings(o.S)
		} else {
			ss = in.tok.TokenizeStreamToStrings(sc)
		}
		st.tokens = len(ss)
		st.contentLen = len(sc.Content)
		return fmt.Sprintf("strings:%q", ss), st
	case in.tok != nil:
		eofAt, failAt := -1, 0
		abandon := -1
		if f != nil && dry != nil {
			switch f.Kind {
			case "eof_at":
				n := len([]rune(o.S))
				if n > 0 {
					a := f.At
					if a < 0 {
						a = -a
					}
					eofAt = a % n
				}
			case "fail_at":
				failAt = resolve(dry.scannerCalls)
			case "abandon_after":
				if dry.tokens > 0 {
					a := f.At
					if a < 0 {
						a = -a
					}
					abandon = a % dry.tokens
				}
			}
		}
		var toks []*tokenizers.Token
		sc := NewSimScanner(o.S, eofAt, failAt)
		if o.Op == "rewind" {
			// the caller rewinds the scanner object of the previous step and hands the same object in again;
			// a fresh instance sees a new scanner over the same input
			if in.lastScanner != nil {
				sc = in.lastScanner
				sc.FailAt = 0
				sc.Reset()
			} else {
				sc = NewSimScanner(in.lastInput, -1, 0)
			}
			func() {
				defer func() { st.scannerCalls = sc.Calls }()
				toks = in.tok.TokenizeStream(sc)
			}()
			st.tokens = len(toks)
			st.contentLen = len(sc.Content)
			return describeTokens(toks), st
		}
		in.lastScanner, in.lastInput = sc, string(sc.Content)
		if f != nil && dry != nil && (f.Kind == "state_nil" || f.Kind == "state_empty") && len(sc.Content) > 0 {
			// a caller-supplied tokenizer state that yields nothing for some character: the main
			// loop's guard has to consume the character itself
			type stateTable interface {
				GetCharacterState(rune) tokenizers.ITokenizerState
				SetCharacterState(rune, rune, tokenizers.ITokenizerState)
			}
			if tbl, ok := in.tok.(stateTable); ok {
				a := f.At
				if a < 0 {
					a = -a
				}
				ch := sc.Content[a%len(sc.Content)]
				if ch >= 0 && ch <= 0xfffe {
					old := tbl.GetCharacterState(ch)
					fs := &faultyState{empty: f.Kind == "state_empty"}
					tbl.SetCharacterState(ch, ch, fs)
					defer func() {
						tbl.SetCharacterState(ch, ch, old)
						if fs.calls > 0 {
							st.fired = f.Kind
						}
					}()
				}
			}
		}
		func() {
			defer func() { st.scannerCalls = sc.Calls }()
			switch o.Op {
			case "stream":
				toks = in.tok.TokenizeStream(sc)
			case "manual":
				in.tok.SetReader(sc)
				toks = []*tokenizers.Token{}
				for {
					for h := 0; h < o.I && h < 3; h++ {
						in.tok.HasNextToken()
					}
					if abandon >= 0 && len(toks) >= abandon {
						st.fired = "abandon_after"
						break
					}
					t := in.tok.NextToken()
					if t == nil {
						break
					}
					toks = append(toks, t)
					if len(toks) > 10000 {
						st.progressBad = "more than 10000 tokens"
						break
					}
				}
			default: // buffer
				if f != nil && f.Kind != "" && f.Kind != "eof_at" {
					// faults need a scanner of ours: use the stream form
					toks = in.tok.TokenizeStream(sc)
				} else if eofAt >= 0 {
					toks = in.tok.TokenizeBuffer(string(sc.Content))
				} else if dry == nil {
					// fault-free dry run: count the scanner calls the buffer form would make
					toks = in.tok.TokenizeStream(sc)
				} else {
					toks = in.tok.TokenizeBuffer(o.S)
				}
			}
		}()
		if eofAt >= 0 {
			st.fired = "eof_at"
		}
		if sc.Fired {
			st.fired = "fail_at"
		}
		st.tokens = len(toks)
		st.contentLen = len(sc.Content)
		return describeTokens(toks), st
	case in.ep != nil && (o.Op == "tokens" || o.Op == "rawtokens"):
		err := in.ep.ParseTokens(originalTokens(o, exprOriginalTokens, looseExprTokenizer))
		return fmt.Sprintf("expr=%q err=%s|%s vars=%q result=%s", in.ep.Expression(), ErrCode(err), ErrMessage(err), in.ep.VariableNames(), describeExprTokens(in.ep.ResultTokens())), st
	case in.mp != nil && (o.Op == "tokens" || o.Op == "rawtokens"):
		err := in.mp.ParseTokens(originalTokens(o, mustOriginalTokens, looseMustTokenizer))
		var sb strings.Builder
		snapshotTmplTokens(&sb, in.mp.ResultTokens())
		return fmt.Sprintf("tmpl=%q err=%s|%s vars=%q result=%s", in.mp.Template(), ErrCode(err), ErrMessage(err), in.mp.VariableNames(), sb.String()), st
	case in.ep != nil:
		err := in.ep.ParseString(o.S)
		return fmt.Sprintf("err=%s|%s vars=%q result=%s", ErrCode(err), ErrMessage(err), in.ep.VariableNames(), describeExprTokens(in.ep.ResultTokens())), st
	case in.mp != nil:
		err := in.mp.ParseString(o.S)
		var sb strings.Builder
		snapshotTmplTokens(&sb, in.mp.ResultTokens())
		return fmt.Sprintf("err=%s|%s vars=%q result=%s", ErrCode(err), ErrMessage(err), in.mp.VariableNames(), sb.String()), st
	case in.calc != nil:
		text := o.S
		var ops *SimOps
		inner := opsManager("unsafe")
		if in.opsSafe {
			inner = opsManager("safe")
		}
		ops = &SimOps{Inner: inner}
		vars := &SimVariables{VariableCollection: buildVars(vs)}
		if o.Op == "pveval" {
			vars = &SimVariables{VariableCollection: in.pvars} // the instance's own, edited collection
		}
		fn := &FnFault{}
		funcs := functions.NewDefaultFunctionCollection()
		funcs.Add(functions.NewDelegatedFunction("Faulty", fn.Delegate(nil)))
		funcs.Add(&PlainFaultyFunction{FName: "PlainFaulty", F: fn})
		if f != nil && dry != nil {
			switch f.Kind {
			case "op_error":
				ops.ErrorAt = resolve(dry.opsCalls)
			case "var_missing":
				vars.Missing = f.Name
			case "fn_error", "fn_panic", "fn_both":
				fn.Kind, fn.At, fn.Msg = f.Kind, max(1, f.At&0xff), f.At>>8
			case "fn_error_plain":
				fn.Kind, fn.At, fn.Msg = "fn_error", max(1, f.At&0xff), f.At>>8
			case "fn_reenter":
				// the function calls back into the calculator that is calling it (an "Eval(text)" function): it sets
				// another expression there, evaluates it and returns its value
				fn.Kind, fn.At, fn.Msg = f.Kind, max(1, f.At&0xff), f.At>>8
				inner := c05InnerTexts[(f.At>>8)%len(c05InnerTexts)]
				fn.Reenter = func() (*variants.Variant, error) {
					in.parsed, in.lastText = false, ""
					if err := in.calc.SetExpression(inner); err != nil {
						return nil, err
					}
					return in.calc.EvaluateUsingVariablesAndFunctions(vars, funcs)
				}
			}
		}
		in.calc.SetVariantOperations(ops)
		defer func() {
			st.opsCalls, st.fnCalls, st.varCalls = ops.Calls, fn.Calls, vars.Calls
			switch {
			case ops.Fired:
				st.fired = "op_error"
			case vars.Fired:
				st.fired = "var_missing"
			case fn.Fired:
				st.fired = f.Kind
			}
		}()
		var err error
		switch {
		case o.Op == "reeval" || o.Op == "defreeval":
			// evaluate the expression set last again, without setting it anew (a fresh instance has to parse it first)
			if in.lastText == "" {
				return "nothing-to-reevaluate", st
			}
			if !in.parsed {
				err = in.calc.SetExpression(in.lastText)
			}
		case o.Op == "tokens" || o.Op == "rawtokens":
			in.parsed, in.lastText = false, ""
			in.calc.SetOriginalTokens(originalTokens(o, exprOriginalTokens, looseExprTokenizer)) // reports no error; a failed parse leaves an empty program
		default:
			in.parsed, in.lastText = false, ""
			err = in.calc.SetExpression(text)
			if err == nil {
				in.parsed, in.lastText = true, text
			}
		}
		if err != nil {
			return fmt.Sprintf("set-err=%s|%s", ErrCode(err), ErrMessage(err)), st
		}
		prog := describeExprTokens(in.calc.ResultTokens())
		var v *variants.Variant
		if o.Op == "defeval" || o.Op == "defreeval" {
			// through the calculator's own default collections: the values go into the default variables
			// (created by the calculator or here), the functions are the - possibly edited - default ones
			dv := in.calc.DefaultVariables()
			names := make([]string, 0, len(vs))
			for name := range vs {
				if !strings.HasPrefix(name, "#") {
					names = append(names, name)
				}
			}
			sort.Strings(names)
			for _, name := range names {
				// only variables the calculator has (created automatically for the names of its expressions, now
				// or earlier): whether it creates them is part of what is compared
				if have := dv.FindByName(name); have != nil {
					have.SetValue(vs[name].ToVariant())
				}
			}
			v, err = in.calc.Evaluate()
		} else {
			v, err = in.calc.EvaluateUsingVariablesAndFunctions(vars, funcs)
		}
		r := ""
		switch {
		case err != nil && v != nil:
			r = "BOTH:" + FromVariant(v).String() + "+" + ErrCode(err)
		case err != nil:
			r = "error:" + ErrCode(err) + "|" + ErrMessage(err)
		case v == nil:
			r = "NEITHER"
		default:
			r = "value:" + FromVariant(v).String()
		}
		return fmt.Sprintf("prog=%s eval=%s", prog, r), st
	case in.tmpl != nil:
		var err error
		if o.Op == "tokens" || o.Op == "rawtokens" {
			err = in.tmpl.SetOriginalTokens(originalTokens(o, mustOriginalTokens, looseMustTokenizer))
		} else {
			err = in.tmpl.SetTemplate(o.S)
		}
		if err != nil {
			return fmt.Sprintf("set-err=%s|%s", ErrCode(err), ErrMessage(err)), st
		}
		var sb strings.Builder
		snapshotTmplTokens(&sb, in.tmpl.ResultTokens())
		s, err := in.tmpl.EvaluateWithVariables(buildMap(vs))
		return fmt.Sprintf("prog=%s err=%s|%s out=%q", sb.String(), ErrCode(err), ErrMessage(err), s), st
	}
	return "unknown-kind", st
}

var c05Opts = []string{"-", "-", "wce", "wced", "", "u", "mn", "wcemnd", "d"}

// c05Lexemes are pieces of text that start, end or empty a lexical element of one of the languages.
var c05Lexemes = []string{`""`, `''`, `"`, `'`, `"é`, `'é`, `"" `, `""(`, "(", ")", "[", "]", ",", "/*", "*/", "//", ".", "..", "-", "+", "e", "E+", "0x", "#", "@", `\`,
	"\uFFFF", "\x00", "😀", "\uFEFF", "{{", "}}", "{{{", "}}}", "{{#", "{{/", "{{^", "{{!", "\r", "\n", "\r\n", ";", "|", "\t", " ", "1", "a", "é"}

// c05Twins are characters that Unicode case mapping sends to an ASCII letter in one direction only
// (dotted capital I, dotless i, Kelvin sign, long s): a spelling with one of them is a different word
// for ToUpper-based and the same word for ToLower- or fold-based comparisons.
var c05Twins = map[rune][]rune{'i': {0x130, 0x131}, 'I': {0x130, 0x131}, 'k': {0x212A}, 'K': {0x212A}, 's': {0x17F}, 'S': {0x17F}}

// c05Damage applies 1-3 lexical edits to an input.
func c05Damage(r *Rand, s string) string {
	rs := []rune(s)
	for n := r.Range(1, 3); n > 0; n-- {
		k := 0
		if len(rs) > 0 {
			k = r.Intn(len(rs) + 1)
		}
		switch r.Intn(6) {
		case 0: // delete a character
			if k < len(rs) {
				rs = append(rs[:k:k], rs[k+1:]...)
			}
		case 1: // double a character
			if k < len(rs) {
				rs = append(rs[:k+1:k+1], rs[k:]...)
			}
		case 2, 3: // insert a lexeme
			lx := c05Lexemes[r.Intn(len(c05Lexemes))]
			rs = append(rs[:k:k], append([]rune(lx), rs[k:]...)...)
		case 4: // a letter becomes its one-way case twin
			for j := 0; j < len(rs); j++ {
				q := (k + j) % len(rs)
				if tw, ok := c05Twins[rs[q]]; ok {
					rs[q] = tw[r.Intn(len(tw))]
					break
				}
			}
		case 5: // cut the input short
			if k < len(rs) && k > 0 {
				rs = rs[:k]
			}
		}
	}
	return string(rs)
}

func c05Input(r *Rand, kind string) string {
	s := c05InputPlain(r, kind)
	if r.Bool(0.25) {
		s = c05SafeDamage(r, s)
	}
	return s
}

// c05MaskVolatile hides the value of an evaluation whose compiled program calls a clock or random function:
// two evaluations of it legitimately differ. The program itself is still compared.
func c05MaskVolatile(s string) string {
	i := strings.Index(s, " eval=value:")
	if i < 0 {
		return s // no value (an error, or not an evaluation)
	}
	low := strings.ToLower(s[:i])
	for _, n := range []string{`"rnd"`, `"random"`, `"now"`, `"ticks"`} {
		if strings.Contains(low, n) {
			return s[:i] + " eval=value:<depends on the clock or the random source>"
		}
	}
	return s
}

// c05SafeDamage is c05Damage unless the damaged text mentions a clock or random function: the generators
// use those only inside predicates whose value does not depend on them ("(Random() >= 0)"), and an edit can
// free the call from its predicate ("RAnDom()") - two evaluations of that legitimately differ, which would
// be a false alarm of the fresh-instance comparison (it was: thorough tier, run 143274).
func c05SafeDamage(r *Rand, s string) string {
	d := c05Damage(r, s)
	low := strings.ToLower(d)
	for _, name := range []string{"rnd", "random", "now", "ticks"} {
		if strings.Contains(low, name) {
			return s
		}
	}
	return d
}

func c05InputPlain(r *Rand, kind string) string {
	pool := c05Pool(kind)
	if r.Bool(0.8) {
		return pool[r.Intn(len(pool))]
	}
	switch kind {
	case "exprparser", "calc", "gentok", "exprtok":
		g := NewExprGen(r)
		g.MaxVars = 3
		return g.Top()
	case "mustparser", "tmpl", "musttok":
		return NewTmplGen(r).Gen(2)
	}
	return pool[r.Intn(len(pool))]
}

func c05Fault(r *Rand, kind string, mode string) *Fault {
	if isTokKind(kind) {
		k := r.Pick([]string{"fail_at", "eof_at", "abandon_after"})
		if k == "abandon_after" && mode != "manual" {
			k = "fail_at"
		}
		return &Fault{Kind: k, At: r.Intn(1 << 20)}
	}
	if kind == "calc" {
		k := r.Pick([]string{"op_error", "var_missing", "fn_error", "fn_panic", "fn_error_plain", "fn_both", "fn_reenter"})
		return &Fault{Kind: k, At: r.Intn(1 << 20), Name: r.Pick([]string{"a", "b", "c"})}
	}
	return nil
}

// c05GenTask draws the history of one instance. first/second, when >= 0,
// select the first two inputs from the pool (ordered-pair sweep).
func c05GenTask(r *Rand, kind string, faults bool, first, second int) TaskPlan {
	tp := TaskPlan{Kind: kind, Text: r.Pick(c05Opts)}
	if kind == "calc" {
		tp.Text = r.Pick([]string{"", "", "S"})
		tp.Sets = []VarSet{defaultVarSet(), {"a": VInt(7), "b": VDouble(2.5), "c": VStr("x"), "zz": VInt(0)}}
	}
	if kind == "tmpl" {
		tp.Sets = []VarSet{defaultTmplSet(), {"name": VStr(""), "a": VStr(""), "b": VStr("B")}}
	}
	pool := c05Pool(kind)
	n := r.Range(2, 8+4*r.Size())
	for i := 0; i < n; i++ {
		o := Op{Op: "buffer"}
		if isTokKind(kind) {
			o.Op = r.Pick([]string{"buffer", "stream", "manual", "manual", "buffer", "stream", "manual", "manual", "strings", "streamstrings"})
			o.I = r.Intn(4)
			if kind == "csvtok" && r.Bool(0.12) {
				tp.Ops = append(tp.Ops, Op{Op: "config", I: r.Intn(11)})
			}
			if r.Bool(0.08) && i > 0 {
				o.Op = "rewind"
			}
		} else if r.Bool(0.2) {
			o.Op = "tokens"
			if r.Bool(0.35) {
				o.Op = "rawtokens"
				o.I = r.Intn(4) // single token / first two glued / the list of a tokenizer in its default configuration
			}
		} else if r.Bool(0.08) && i > 0 {
			o.Op = "owntext" // set the instance's own current text again
		}
		if kind == "calc" {
			switch r.Intn(12) {
			case 0:
				tp.Ops = append(tp.Ops, Op{Op: "config", I: 100})
			case 1:
				tp.Ops = append(tp.Ops, Op{Op: "config", I: 200 + r.PickInt([]int{1, 3, 8, 17, 24})})
			case 2:
				tp.Ops = append(tp.Ops, Op{Op: "config", I: 300 + r.Intn(60)})
			case 3, 4:
				o.Op = "reeval"
			case 5, 6:
				o.Op = "pveval"
			case 7:
				o.Op = r.Pick([]string{"defeval", "defeval", "defreeval"})
			case 10:
				if i > 0 {
					// the operations manager is switched, then the expression set before is evaluated again as it is
					tp.Ops = append(tp.Ops, Op{Op: "config", I: 100})
					o.Op = r.Pick([]string{"reeval", "reeval", "defreeval"})
				}
			case 9:
				if i > 0 {
					// the default variables are emptied (or lose one entry), then the calculator's own text is set again
					tp.Ops = append(tp.Ops, Op{Op: "config", I: 500 + r.Intn(10)})
					o.Op = r.Pick([]string{"defown", "defown", "defeval"})
				}
			case 8:
				// edit the calculator's default function collection: replace (400..) or remove (450..) a standard function
				tp.Ops = append(tp.Ops, Op{Op: "config", I: 400 + r.Intn(100)})
				o.Op = r.Pick([]string{"defeval", "defreeval", "defreeval"})
			}
		}
		switch {
		case i == 0 && first >= 0:
			o.S = pool[first%len(pool)]
		case i == 1 && second >= 0:
			o.S = pool[second%len(pool)]
		default:
			o.S = c05Input(r, kind)
			if i > 0 && r.Bool(0.15) {
				o.S = tp.Ops[len(tp.Ops)-1].S // the same input as the step before (possibly through another entry point)
			} else if i > 0 && r.Bool(0.15) {
				// a near-twin of an earlier input of this history (one or two lexical edits apart: another letter case
				// twin, an element emptied or cut), in either order
				j := r.Intn(len(tp.Ops))
				if tp.Ops[j].Op != "config" && tp.Ops[j].Op != "pveval" && tp.Ops[j].F == nil {
					o.S = c05SafeDamage(r, tp.Ops[j].S)
					if r.Bool(0.5) {
						o.S, tp.Ops[j].S = tp.Ops[j].S, o.S
					}
				}
			}
		}
		if o.Op == "pveval" {
			o.S = fmt.Sprintf("pv%d %s pv%d", r.Intn(40), r.Pick([]string{"+", "*", "-"}), r.Intn(40))
			if r.Bool(0.3) {
				o.S = strings.ToUpper(o.S)
			}
		}
		o.Set = r.Intn(2)
		if faults && r.Bool(0.3) && o.Op != "strings" && o.Op != "streamstrings" {
			o.F = c05Fault(r, kind, o.Op)
			if (o.Op == "defeval" || o.Op == "defreeval" || o.Op == "defown") && o.F != nil && o.F.Kind != "op_error" {
				o.F = nil // the default collections have no failing function or missing variable to offer
			}
			if o.F != nil && strings.HasPrefix(o.F.Kind, "fn_") {
				name := "Faulty"
				if o.F.Kind == "fn_error_plain" {
					name = "PlainFaulty"
				}
				if o.S == "" || strings.TrimSpace(o.S) == "" {
					o.S = "1"
				}
				o.S = faultyShape(r, name, o.S)
				o.F.At = o.F.At&^0xff | faultyCallIndex(r, o.S, name) // low byte: which call of the delegate fails
			}
		}
		tp.Ops = append(tp.Ops, o)
	}
	return tp
}

func (propC05) Gen(r *Rand) *Plan {
	p := &Plan{Config: map[string]string{}}
	faults := r.Bool(0.5)
	p.Config["faults"] = map[bool]string{true: "on", false: "off"}[faults]
	ntasks := r.Weighted([]int{0, 6, 3, 2})
	if ntasks == 0 {
		ntasks = 1
	}
	for t := 0; t < ntasks; t++ {
		kind := r.Pick(c05Kinds)
		first, second := -1, -1
		if t == 0 && r.Bool(0.7) {
			n := len(c05Pool(kind))
			pair := r.Intn(n * n)
			first, second = pair/n, pair%n
		}
		p.Tasks = append(p.Tasks, c05GenTask(r, kind, faults, first, second))
	}
	p.Policy = Policies[r.Intn(len(Policies))]
	return p
}

// pristine results: computed once per process before any history ran.
var c05Pristine map[string]string

func c05PristineKey(kind, opts string, o Op, set int) string {
	if kind != "calc" && kind != "tmpl" {
		set = 0
	}
	return kind + "\x00" + opts + "\x00" + o.Op + "\x00" + fmt.Sprint(o.I) + "\x00" + o.S + "\x00" + fmt.Sprint(set)
}

func (propC05) Warmup() { C05Warmup() }

func (propC05) Exec(p *Plan, x *Ctx) *Outcome {
	out := NewOutcome()
	run := NewRun(0)
	faultsOn := p.Cfg("faults", "on") == "on"
	type stepRes struct {
		got, fresh string
		st         stepStats
		dry        stepStats
		configured bool
	}
	results := make([][]stepRes, len(p.Tasks))
	for t := range p.Tasks {
		t := t
		tp := p.Tasks[t]
		results[t] = make([]stepRes, len(tp.Ops))
		run.AddTask(func() {
			in := newInstance(tp.Kind, tp.Text)
			for i, o := range tp.Ops {
				if !faultsOn {
					o.F = nil
				}
				r := &results[t][i]
				// fault-free dry run on a throw-away fresh instance (counts seam calls)
				if o.F != nil {
					run.ResetOpSteps()
					od := o
					od.F = nil
					_, r.dry = in.freshLike().step(od, tp.Sets, nil)
				}
				if o.Op == "defown" {
					// the same, evaluated through the calculator's own default collections
					if t, ok := in.ownText(); ok {
						o.S = t
					}
					o.Op = "defeval"
				}
				if o.Op == "owntext" {
					// the caller sets the text the instance itself reports again, e.g. c.SetExpression(c.Expression())
					if t, ok := in.ownText(); ok {
						o.S = t
					}
					o.Op = "buffer"
				}
				run.ResetOpSteps()
				fresh := in.freshLike()
				r.got, r.st = in.step(o, tp.Sets, &r.dry)
				r.configured = len(in.configs) > 0
				run.ResetOpSteps()
				r.fresh, _ = fresh.step(o, tp.Sets, &r.dry)
				r.got, r.fresh = c05MaskVolatile(r.got), c05MaskVolatile(r.fresh)
			}
		})
	}
	var ch Chooser
	if x.Replay || len(p.Schedule) > 0 || x.R == nil {
		ch = &ReplayChooser{Sched: p.Schedule}
	} else {
		ch = NewPolicyChooser(x.R, p.Policy, len(p.Tasks), false)
	}
	if p.Cfg("coarse", "") == "on" {
		run.SetCoarse(true)
	}
	run.Schedule(ch)
	if !x.Replay && len(p.Schedule) == 0 && len(p.Tasks) > 1 {
		p.Schedule = run.Executed
	}
	for _, e := range run.Executed {
		out.Sched.Int(int64(e.Task)).Int(e.Quantum)
	}
	steps := 0
	for t, tp := range p.Tasks {
		prev := ""
		for i, o := range tp.Ops {
			r := results[t][i]
			steps++
			out.Event("t%d.%d %s", t, i, r.got)
			if r.st.fired != "" {
				out.Faults[r.st.fired]++
			}
			if r.st.libPanic {
				out.Observations["library_panic_in_step"]++
			}
			fk := "-"
			if o.F != nil && faultsOn {
				fk = o.F.Kind
			}
			out.State(tp.Kind, inputClass(prev), inputClass(o.S), o.Op, fk)
			prev = o.S
			if strings.HasPrefix(r.got, "step-budget:") {
				out.Violate("liveness", "C05/step-budget/"+tp.Kind, "task %d step %d: %s", t, i, r.got)
				continue
			}
			if r.got != r.fresh {
				hist := []string{}
				for j := 0; j <= i; j++ {
					hist = append(hist, fmt.Sprintf("%s(%q)", tp.Ops[j].Op, tp.Ops[j].S))
				}
				out.Violate("fresh-instance", fmt.Sprintf("C05/%s/%s/vs-fresh", tp.Kind, o.Op),
					"task %d (%s, options %q) step %d after history %s:\n reused instance: %s\n fresh instance:  %s", t, tp.Kind, tp.Text, i, strings.Join(hist, ", "), clip(r.got), clip(r.fresh))
				break
			}
			if (o.F == nil || !faultsOn) && c05Pristine != nil && !r.configured && o.Op != "reeval" && o.Op != "pveval" && o.Op != "rewind" && o.Op != "rawtokens" && o.Op != "owntext" {
				if want, ok := c05Pristine[c05PristineKey(tp.Kind, tp.Text, o, o.Set%2)]; ok {
					out.Probes["pristine_compared"]++
					if want != r.got {
						out.Violate("pristine", fmt.Sprintf("C05/%s/%s/vs-pristine", tp.Kind, o.Op),
							"task %d (%s) step %d input %q: result %s differs from the result computed before any history ran: %s", t, tp.Kind, i, o.S, clip(r.got), clip(want))
						break
					}
				}
			}
		}
	}
	for _, t := range run.tasks {
		if t.PanicVal != nil {
			out.Violate("no-panic", "C05/harness-task-panic", "task body panicked: %v", t.PanicVal)
		}
	}
	out.Steps = run.Steps()
	out.Switches = run.Switches()
	out.SwitchPairs = run.SwitchPairs()
	out.SchedSig = ScheduleSig(run.Executed)
	out.Nontrivial = steps >= 2
	out.CaseSig = NewHasher().Int(int64(HashJSON(p.Tasks))).Int(int64(out.SchedSig)).Str(p.Cfg("faults", "on")).Sum()
	return out
}

func inputClass(s string) string {
	if len(s) > 12 {
		return fmt.Sprintf("%x", HashStr(s)&0xffff)
	}
	return s
}

// C05Warmup computes the pristine results for all pool inputs. It runs once
// per process, before the first run, on untouched package state.
func C05Warmup() {
	if c05Pristine != nil {
		return
	}
	m := map[string]string{}
	run := NewRun(0)
	run.Solo(func() {
		for _, kind := range c05Kinds {
			optsList := c05Opts
			if kind == "calc" {
				optsList = []string{"", "S"}
			} else if !isTokKind(kind) {
				optsList = []string{"-", "", "wce", "wced", "u", "mn", "wcemnd", "d"}
			}
			sets := []VarSet(nil)
			if kind == "calc" {
				sets = []VarSet{defaultVarSet(), {"a": VInt(7), "b": VDouble(2.5), "c": VStr("x"), "zz": VInt(0)}}
			}
			if kind == "tmpl" {
				sets = []VarSet{defaultTmplSet(), {"name": VStr(""), "a": VStr(""), "b": VStr("B")}}
			}
			seenOpts := map[string]bool{}
			for _, opts := range optsList {
				if seenOpts[opts] {
					continue
				}
				seenOpts[opts] = true
				for _, in := range c05Pool(kind) {
					modes := []string{"buffer"}
					if isTokKind(kind) {
						modes = []string{"buffer", "stream", "manual"}
					}
					for _, mode := range modes {
						for h := 0; h < 4; h++ {
							if mode != "manual" && !isTokKind(kind) && h > 0 {
								break
							}
							for set := 0; set < 2; set++ {
								if len(sets) == 0 && set > 0 {
									break
								}
								o := Op{Op: mode, S: in, I: h, Set: set}
								run.ResetOpSteps()
								res, _ := newInstance(kind, opts).step(o, sets, &stepStats{})
								m[c05PristineKey(kind, opts, o, set)] = res
							}
						}
					}
				}
			}
		}
	})
	c05Pristine = m
}

// exprOriginalTokens tokenizes an expression the way ExpressionParser does
// before it parses, with a tokenizer of its own.
func exprOriginalTokens(text string) []*tokenizers.Token {
	text = strings.Trim(text, " \t\r\n")
	if text == "" {
		return []*tokenizers.Token{}
	}
	t := ctok.NewExpressionTokenizer()
	t.SetSkipWhitespaces(true)
	t.SetSkipComments(true)
	t.SetSkipEof(true)
	t.SetDecodeStrings(true)
	return t.TokenizeBuffer(text)
}

func looseExprTokenizer() tokenizers.ITokenizer { return ctok.NewExpressionTokenizer() }
func looseMustTokenizer() tokenizers.ITokenizer { return mtok.NewMustacheTokenizer() }

func mustOriginalTokens(text string) []*tokenizers.Token {
	text = strings.Trim(text, " \t\r\n")
	if text == "" {
		return []*tokenizers.Token{}
	}
	t := mtok.NewMustacheTokenizer()
	t.SetSkipWhitespaces(true)
	t.SetSkipComments(true)
	t.SetSkipEof(true)
	t.SetDecodeStrings(true)
	return t.TokenizeBuffer(text)
}

// faultyState is a caller-supplied tokenizer state that produces no token
// (nil) or an empty one, without consuming anything.
type faultyState struct {
	empty bool
	calls int
}

func (f *faultyState) NextToken(scanner sio.IScanner, tokenizer tokenizers.ITokenizer) *tokenizers.Token {
	f.calls++
	if f.empty {
		return tokenizers.NewToken(tokenizers.Word, "", scanner.PeekLine(), scanner.PeekColumn())
	}
	return nil
}

// faultyShape places calls of the failing function in an expression: around
// it, next to it, twice, nested in another call, inside an array element.
func faultyShape(r *Rand, name, expr string) string {
	if strings.TrimSpace(expr) == "" {
		expr = "1"
	}
	switch r.Intn(7) {
	case 0:
		return name + "(" + expr + ") + " + name + "(2)"
	case 1:
		return "Max(1, " + name + "(" + expr + "))"
	case 2:
		return "Array(1, " + name + "(" + expr + "), 3)[1]"
	case 3:
		return name + "(" + name + "(" + expr + "))"
	case 4:
		return "If(TRUE, " + name + "(1), " + name + "(" + expr + "))"
	}
	return name + "(" + expr + ")"
}

// faultyCallIndex picks which invocation of the delegate fails (1-based).
func faultyCallIndex(r *Rand, text, name string) int {
	n := strings.Count(text, name+"(")
	if n < 1 {
		n = 1
	}
	return 1 + r.Intn(n)
}

// originalTokens gives the token list of a "tokens" step (the tokenizer's own
// output) or of a "rawtokens" step: a list a caller assembled by hand that does
// not come back when its composed text is tokenized again - the whole text as
// one token, or the tokenizer's output with the values of adjacent tokens glued.
func originalTokens(o Op, tokenize func(string) []*tokenizers.Token, loose func() tokenizers.ITokenizer) []*tokenizers.Token {
	toks := tokenize(o.S)
	if o.Op != "rawtokens" {
		return toks
	}
	if o.I%4 == 3 {
		// what a tokenizer in its default configuration gives for the untrimmed text: blanks, comments
		// and the end-of-input token are all in the list (for a blank text: nothing else)
		return loose().TokenizeBuffer(o.S)
	}
	if o.I%2 == 0 || len(toks) < 2 {
		typ := tokenizers.Special
		if len(toks) > 0 {
			typ = toks[0].Type()
		}
		return []*tokenizers.Token{tokenizers.NewToken(typ, strings.Trim(o.S, " \t\r\n"), 1, 1)}
	}
	// glue the first two tokens into one of the first one's type
	glued := tokenizers.NewToken(toks[0].Type(), toks[0].Value()+toks[1].Value(), toks[0].Line(), toks[0].Column())
	return append([]*tokenizers.Token{glued}, toks[2:]...)
}

// ownText is the text an instance currently reports for itself.
func (in *instance) ownText() (string, bool) {
	switch {
	case in.calc != nil:
		return in.calc.Expression(), true
	case in.ep != nil:
		return in.ep.Expression(), true
	case in.mp != nil:
		return in.mp.Template(), true
	case in.tmpl != nil:
		return in.tmpl.Template(), true
	}
	return "", false
}
