package sim

import (
	"fmt"
	"sort"

	sio "github.com/pip-services3-gox/pip-services3-expressions-gox/io"
	"github.com/pip-services3-gox/pip-services3-expressions-gox/tokenizers"
	"github.com/pip-services3-gox/pip-services3-expressions-gox/tokenizers/generic"
)

// C16 – symbol tables return the longest registered symbol with its own type.
// Interleaved Add / read histories on one symbol table against a
// longest-registered-prefix model; after every Add every symbol registered so
// far is read back.

type propC16 struct{}

func init() { Register(propC16{}) }

func (propC16) ID() string { return "C16" }

var c16Alphabet = []rune{'<', '=', '>', '!', 'λ'}

func c16Type(sym string) int {
	// every symbol has its own fixed token type, never one of the library's
	return 100 + int(HashStr(sym)%9000)
}

func c16Word(r *Rand, lo, hi int) string {
	n := r.Range(lo, hi)
	w := make([]rune, n)
	for i := range w {
		w[i] = r.PickRune(c16Alphabet)
	}
	return string(w)
}

func (propC16) Gen(r *Rand) *Plan {
	nops := r.Range(2, 24*r.Size())
	var ops []Op
	var syms []string
	for i := 0; i < nops; i++ {
		if len(syms) == 0 || r.Bool(0.4) {
			s := c16Word(r, 1, 2+Scale)
			if len(syms) > 0 && r.Bool(0.35) {
				// extend or share a prefix with an existing symbol
				base := []rune(syms[r.Intn(len(syms))])
				if r.Bool(0.5) && len(base) < 2+Scale {
					s = string(append(append([]rune{}, base...), r.PickRune(c16Alphabet)))
				} else if len(base) > 1 {
					s = string(append(append([]rune{}, base[:len(base)-1]...), r.PickRune(c16Alphabet)))
				}
			}
			syms = append(syms, s)
			ops = append(ops, Op{Op: "add", S: s})
		} else {
			var in string
			switch r.Intn(4) {
			case 0: // exactly a registered symbol
				in = syms[r.Intn(len(syms))]
			case 1: // a registered symbol cut short (input ends inside a longer symbol)
				b := []rune(syms[r.Intn(len(syms))])
				in = string(b[:r.Range(1, len(b))])
			case 2: // a registered symbol followed by more
				in = syms[r.Intn(len(syms))] + c16Word(r, 1, 3)
			default:
				in = c16Word(r, 1, 5*Scale)
			}
			ops = append(ops, Op{Op: "read", S: in})
		}
	}
	return &Plan{Scenario: []string{"root", "state"}[r.Intn(2)], Tasks: []TaskPlan{{Ops: ops}}}
}

func (propC16) Exec(p *Plan, x *Ctx) *Outcome {
	out := NewOutcome()
	if len(p.Tasks) == 0 {
		return out
	}
	ops := p.Tasks[0].Ops
	run := NewRun(0)
	adds, reads := 0, 0
	body := func() {
		var root *generic.SymbolRootNode
		var state *generic.GenericSymbolState
		if p.Scenario == "state" {
			state = generic.NewGenericSymbolState()
		} else {
			root = generic.NewSymbolRootNode()
		}
		model := map[string]int{}
		lastRead := ""
		read := func(i int, input string, why string) bool {
			in := []rune(input)
			if len(in) == 0 {
				return true
			}
			// model: longest registered prefix, else the next single character
			wantText, wantType := string(in[:1]), tokenizers.Symbol
			for l := len(in); l >= 1; l-- {
				if t, ok := model[string(in[:l])]; ok {
					wantText, wantType = string(in[:l]), t
					break
				}
			}
			sc := sio.NewStringScanner(input)
			var tok *tokenizers.Token
			if state != nil {
				tok = state.NextToken(sc, nil)
			} else {
				tok = root.NextToken(sc)
			}
			rest := 0
			for sc.Read() != -1 {
				rest++
			}
			consumed := len(in) - rest
			reads++
			out.Event("read %q -> %d %q %d", input, tok.Type(), tok.Value(), consumed)
			out.State(len(model), wantText, lastRead)
			prev := lastRead
			lastRead = wantText
			if tok.Value() != wantText || tok.Type() != wantType || consumed != len([]rune(wantText)) {
				kind := "text"
				if tok.Value() == wantText {
					kind = "type"
					if tok.Type() == wantType {
						kind = "consumed"
					}
				}
				out.Violate("longest-match", fmt.Sprintf("C16/%s/%s/len%d", why, kind, len([]rune(wantText))),
					"op %d: reading %q with symbols %v (previous read %q) gives type %d text %q consuming %d; longest registered prefix is %q of type %d",
					i, input, c16Syms(model), prev, tok.Type(), tok.Value(), consumed, wantText, wantType)
				return false
			}
			return true
		}
		for i, o := range ops {
			run.ResetOpSteps()
			switch o.Op {
			case "add":
				if o.S == "" {
					continue
				}
				if state != nil {
					state.Add(o.S, c16Type(o.S))
				} else {
					root.Add(o.S, c16Type(o.S))
				}
				model[o.S] = c16Type(o.S)
				adds++
				out.Event("add %q", o.S)
				// registering further symbols never alters existing ones
				for _, s := range c16Syms(model) {
					if !read(i, s, "readback") {
						return
					}
				}
				if len([]rune(o.S)) > 1 {
					if _, ok := model[string([]rune(o.S)[:len([]rune(o.S))-1])]; !ok && len([]rune(o.S)) == 3 {
						out.Probes["unregistered_proper_prefix"]++
					}
				}
			case "read":
				in := []rune(o.S)
				if len(in) == 0 {
					continue
				}
				for s := range model {
					if r := []rune(s); len(r) > len(in) && string(r[:len(in)]) == o.S {
						out.Probes["input_ends_inside_symbol"]++
						break
					}
				}
				if !read(i, o.S, "read") {
					return
				}
			}
		}
	}
	t := run.AddTask(body)
	run.Schedule(&ReplayChooser{})
	if t.PanicVal != nil {
		if sb, ok := t.PanicVal.(StepBudgetExceeded); ok {
			out.Violate("liveness", "C16/step-budget", "%v", sb)
		} else {
			out.Violate("no-panic", "C16/panic", "operation panicked: %v", t.PanicVal)
		}
	}
	out.Steps = run.Steps()
	out.Nontrivial = len(ops) >= 3 && adds >= 1 && reads >= 2
	out.CaseSig = HashJSON(struct {
		S string
		O []Op
	}{p.Scenario, ops})
	return out
}

func c16Syms(m map[string]int) []string {
	out := make([]string, 0, len(m))
	for s := range m {
		out = append(out, s)
	}
	sort.Strings(out)
	return out
}
