package sim

import (
	"encoding/hex"
	"fmt"
	"sort"

	sio "github.com/pip-services3-gox/pip-services3-expressions-gox/io"
	"github.com/pip-services3-gox/pip-services3-expressions-gox/tokenizers"
	"github.com/pip-services3-gox/pip-services3-expressions-gox/tokenizers/generic"
)

// C16 – symbol tables return the longest registered symbol with its own type.
// Interleaved Add / read histories on one symbol table against a
// longest-registered-prefix model; after every Add every symbol registered so
// far is read back.

type propC16 struct{}

func init() { Register(propC16{}) }

func (propC16) ID() string { return "C16" }

var c16Alphabet = []rune{'<', '=', '>', '!', 'λ'}

func c16Type(sym string) int {
	// every symbol has its own fixed token type, never one of the library's
	return 100 + int(HashStr(sym)%9000)
}

func c16Word(r *Rand, lo, hi int) string {
	n := r.Range(lo, hi)
	w := make([]rune, n)
	for i := range w {
		w[i] = r.PickRune(c16Alphabet)
	}
	return string(w)
}

func (propC16) Gen(r *Rand) *Plan {
	size := r.Size()
	nops := r.Range(2, 24*size)
	maxLen := 2 + size // symbols up to 3 characters in small runs, up to 12 in large ones
	if maxLen > 12 {
		maxLen = 12
	}
	var ops []Op
	var syms []string
	for i := 0; i < nops; i++ {
		if len(syms) == 0 || r.Bool(0.4) {
			s := c16Word(r, 1, maxLen)
			if len(syms) > 0 && r.Bool(0.5) {
				base := []rune(syms[r.Intn(len(syms))])
				switch r.Intn(4) {
				case 0: // extend an existing symbol
					if len(base) < maxLen {
						s = string(append(append([]rune{}, base...), r.PickRune(c16Alphabet)))
					}
				case 1: // a sibling: same prefix, other last character
					if len(base) > 1 {
						s = string(append(append([]rune{}, base[:len(base)-1]...), r.PickRune(c16Alphabet)))
					}
				case 2: // a proper prefix of an existing symbol (creates no new node)
					if len(base) > 1 {
						s = string(base[:r.Range(1, len(base)-1)])
					}
				default: // same tail, other head (shares a suffix with an existing symbol)
					if len(base) > 1 {
						s = string(append([]rune{r.PickRune(c16Alphabet)}, base[1:]...))
					}
				}
			}
			syms = append(syms, s)
			ops = append(ops, Op{Op: "add", S: s})
		} else {
			var in string
			switch r.Intn(6) {
			case 0: // exactly a registered symbol
				in = syms[r.Intn(len(syms))]
			case 1: // a registered symbol cut short (input ends inside a longer symbol)
				b := []rune(syms[r.Intn(len(syms))])
				in = string(b[:r.Range(1, len(b))])
			case 2: // a registered symbol followed by more
				in = syms[r.Intn(len(syms))] + c16Word(r, 1, 3)
			case 3: // a symbol cut short, then something else: deep unwinding in the middle of the input
				b := []rune(syms[r.Intn(len(syms))])
				in = string(b[:r.Range(1, len(b))]) + r.Pick([]string{"x", "λ", "<", "=!"})
			case 4: // the same input as some earlier read (read again after later registrations)
				for j := len(ops) - 1; j >= 0; j-- {
					if ops[j].Op == "read" && r.Bool(0.5) {
						in = ops[j].S
						break
					}
				}
				if in == "" {
					in = c16Word(r, 1, 5)
				}
			default:
				in = c16Word(r, 1, 5*size)
			}
			if r.Bool(0.25) {
				// several symbols in a row from one scanner, after some characters were consumed already
				more := ""
				for k := r.Range(1, 3); k > 0; k-- {
					more += syms[r.Intn(len(syms))]
				}
				ops = append(ops, Op{Op: "readseq", S: in + more + c16Word(r, 0, 2), I: r.Intn(3)})
			} else {
				ops = append(ops, Op{Op: "read", S: in})
			}
		}
	}
	// some inputs get a character replaced by a "neighbour in another plane / page" of itself
	for i := range ops {
		if ops[i].Op != "add" && r.Bool(0.06) {
			rs := []rune(ops[i].S)
			if len(rs) > 0 {
				k := r.Intn(len(rs))
				rs[k] = rs[k] ^ rune(r.PickInt([]int{0x10000, 0x100, 0x10000, 0x20000}))
				ops[i].S = string(rs)
			}
		}
	}
	cfg := map[string]string{"obs": fmt.Sprint(r.ObsStride()), "tokarg": r.Pick([]string{"nil", "nil", "other"})}
	if r.Bool(0.04) {
		// symbols and inputs given as bytes that are not all well-formed UTF-8: an ill-formed byte is the
		// character U+FFFD on both sides (registration and scanner)
		cfg["hex"] = "1"
		bad := []string{"\xff", "\xc3", "\x80"}
		for i := range ops {
			if r.Bool(0.5) {
				rs := []rune(ops[i].S)
				pos := r.Intn(len(rs) + 1)
				ops[i].S = string(rs[:pos]) + bad[r.Intn(len(bad))] + string(rs[pos:])
			}
		}
		for i := range ops {
			ops[i].S = hex.EncodeToString([]byte(ops[i].S))
		}
	}
	return &Plan{Scenario: []string{"root", "state"}[r.Intn(2)], Config: cfg, Tasks: []TaskPlan{{Ops: ops}}}
}

func (propC16) Exec(p *Plan, x *Ctx) *Outcome {
	out := NewOutcome()
	if len(p.Tasks) == 0 {
		return out
	}
	ops := append([]Op{}, p.Tasks[0].Ops...)
	if p.Cfg("hex", "") == "1" {
		for i := range ops {
			if raw, err := hex.DecodeString(ops[i].S); err == nil {
				// what counts is the character sequence Go's conversion gives (U+FFFD for an ill-formed byte)
				ops[i].S = string([]rune(string(raw)))
				if raw2 := string(raw); raw2 != ops[i].S {
					ops[i].S2 = raw2 // the bytes as the caller hands them in
				}
			}
		}
	}
	stride := p.Stride()
	run := NewRun(0)
	adds, reads := 0, 0
	body := func() {
		var root *generic.SymbolRootNode
		var state *generic.GenericSymbolState
		if p.Scenario == "state" {
			state = generic.NewGenericSymbolState()
		} else {
			root = generic.NewSymbolRootNode()
		}
		// the second argument of a symbol state's NextToken: nil, or a tokenizer that is busy with a
		// stream of its own (the state has to read from the scanner it is given)
		var tokArg tokenizers.ITokenizer
		if p.Cfg("tokarg", "nil") == "other" {
			other := generic.NewGenericTokenizer()
			other.SetReader(sio.NewStringScanner("a <= b >= c"))
			other.NextToken()
			tokArg = other
		}
		model := map[string]int{}
		lastRead := ""
		// a second symbol table is alive and in use at the same time; its symbols share heads and
		// tails with this table's: tables must not share text, types or cached positions
		decoy := generic.NewSymbolRootNode()
		decoyStep := func(i int, sym string) {
			rs := []rune(sym)
			if len(rs) == 0 {
				return
			}
			d := string(append([]rune{c16Alphabet[i%len(c16Alphabet)]}, rs[1:]...)) + string(c16Alphabet[(i/3)%len(c16Alphabet)])
			decoy.Add(d, 77)
			decoy.NextToken(sio.NewStringScanner(d + "x"))
			decoy.NextToken(sio.NewStringScanner(sym))
		}
		// rawOf: the bytes a read operation hands to the scanner (ill-formed ones when the plan has them)
		rawInputs := map[string]string{}
		for _, o := range ops {
			if o.S2 != "" {
				rawInputs[o.S] = o.S2
			}
		}
		rawOf := func(chars string) string {
			if raw, ok := rawInputs[chars]; ok {
				return raw
			}
			return chars
		}
		read := func(i int, input string, why string) bool {
			in := []rune(input)
			if len(in) == 0 {
				return true
			}
			// model: longest registered prefix, else the next single character
			// an unregistered single character comes back on its own; the statement fixes the type only
			// for registered symbols ("with that symbol's token type"), so -1 means "not asserted"
			wantText, wantType := string(in[:1]), -1
			for l := len(in); l >= 1; l-- {
				if t, ok := model[string(in[:l])]; ok {
					wantText, wantType = string(in[:l]), t
					break
				}
			}
			sc := sio.NewStringScanner(rawOf(input))
			var tok *tokenizers.Token
			if state != nil {
				tok = state.NextToken(sc, tokArg)
			} else {
				tok = root.NextToken(sc)
			}
			rest := 0
			for sc.Read() != -1 {
				rest++
			}
			consumed := len(in) - rest
			reads++
			out.Event("read %q -> %d %q %d", input, tok.Type(), tok.Value(), consumed)
			out.State(len(model), wantText, lastRead)
			prev := lastRead
			lastRead = wantText
			if tok.Value() != wantText || (wantType >= 0 && tok.Type() != wantType) || consumed != len([]rune(wantText)) {
				kind := "text"
				if tok.Value() == wantText {
					kind = "type"
					if wantType < 0 || tok.Type() == wantType {
						kind = "consumed"
					}
				}
				out.Violate("longest-match", fmt.Sprintf("C16/%s/%s/len%d", why, kind, len([]rune(wantText))),
					"op %d: reading %q with symbols %v (previous read %q) gives type %d text %q consuming %d; longest registered prefix is %q of type %d",
					i, input, c16Syms(model), prev, tok.Type(), tok.Value(), consumed, wantText, wantType)
				return false
			}
			return true
		}
		for i, o := range ops {
			run.ResetOpSteps()
			switch o.Op {
			case "add":
				if o.S == "" {
					continue
				}
				decoyStep(i, o.S)
				symBytes := o.S
				if o.S2 != "" {
					symBytes = o.S2 // ill-formed bytes as given; the model key is the character sequence
				}
				if state != nil {
					state.Add(symBytes, c16Type(o.S))
				} else {
					root.Add(symBytes, c16Type(o.S))
				}
				model[o.S] = c16Type(o.S)
				adds++
				out.Event("add %q", o.S)
				// registering further symbols never alters existing ones (read back unless this run observes sparsely)
				if Observe(stride, i, len(ops)) {
					for _, s := range c16Syms(model) {
						if !read(i, s, "readback") {
							return
						}
					}
				}
				if len([]rune(o.S)) > 1 {
					if _, ok := model[string([]rune(o.S)[:len([]rune(o.S))-1])]; !ok && len([]rune(o.S)) == 3 {
						out.Probes["unregistered_proper_prefix"]++
					}
				}
			case "readseq":
				in := []rune(o.S)
				if len(in) == 0 {
					continue
				}
				// a scanner over "ab"[:I] + input: the prefix is consumed first, then tokens are read until the end
				prefix := []rune("ab")[:o.I%3]
				sc := sio.NewStringScanner(string(prefix) + o.S)
				for range prefix {
					sc.Read()
				}
				pos := 0
				for pos < len(in) {
					wantText := string(in[pos : pos+1])
					wantType := -1
					for l := len(in) - pos; l >= 1; l-- {
						if t, ok := model[string(in[pos:pos+l])]; ok {
							wantText, wantType = string(in[pos:pos+l]), t
							break
						}
					}
					var tok *tokenizers.Token
					if state != nil {
						tok = state.NextToken(sc, tokArg)
					} else {
						tok = root.NextToken(sc)
					}
					reads++
					out.Event("readseq %q@%d -> %d %q", o.S, pos, tok.Type(), tok.Value())
					if tok.Value() != wantText || (wantType >= 0 && tok.Type() != wantType) {
						out.Violate("longest-match", fmt.Sprintf("C16/readseq/len%d", len([]rune(wantText))),
							"op %d: reading %q symbol by symbol (after a consumed prefix of %d) with symbols %v: at offset %d got type %d text %q; longest registered prefix there is %q of type %d",
							i, o.S, len(prefix), c16Syms(model), pos, tok.Type(), tok.Value(), wantText, wantType)
						return
					}
					pos += len([]rune(wantText))
				}
				if rest := sc.Read(); rest != -1 {
					out.Violate("longest-match", "C16/readseq/consumed", "op %d: after reading all symbols of %q the scanner still has characters (next %q)", i, o.S, string(rest))
					return
				}
				out.Probes["symbols_read_in_sequence"]++
			case "read":
				in := []rune(o.S)
				if len(in) == 0 {
					continue
				}
				for s := range model {
					if r := []rune(s); len(r) > len(in) && string(r[:len(in)]) == o.S {
						out.Probes["input_ends_inside_symbol"]++
						break
					}
				}
				if !read(i, o.S, "read") {
					return
				}
			}
		}
	}
	t := run.AddTask(body)
	run.Schedule(&ReplayChooser{})
	if t.PanicVal != nil {
		if sb, ok := t.PanicVal.(StepBudgetExceeded); ok {
			out.Violate("liveness", "C16/step-budget", "%v", sb)
		} else {
			out.Violate("no-panic", "C16/panic", "operation panicked: %v", t.PanicVal)
		}
	}
	out.Steps = run.Steps()
	out.Nontrivial = len(ops) >= 3 && adds >= 1 && reads >= 2
	out.CaseSig = HashJSON(struct {
		S string
		O []Op
	}{p.Scenario, ops})
	return out
}

func c16Syms(m map[string]int) []string {
	out := make([]string, 0, len(m))
	for s := range m {
		out = append(out, s)
	}
	sort.Strings(out)
	return out
}
