package sim

// Cooperative scheduler over real goroutines. Exactly one task runs at a time;
// the yield hook compiled into the scratch copy of the library counts steps
// and parks the running task when its quantum is used up. The hand-off (and
// everything the hook touches) is inside a RaceDisable region, so the race
// detector ignores the synchronisation of the hand-off but still records every
// memory access of the library: tasks look unsynchronised to ThreadSanitizer
// although the scheduler serialises them.
//
// Harness rules (see DESIGN §3.3): everything shared between tasks and the
// scheduler is sync/atomic and touched only inside raceDisable regions; tasks
// are all forked before the first one runs; results become visible to the
// scheduler goroutine through a real (not ignored) channel close at task end.

import (
	"fmt"
	"sync/atomic"
	"time"

	rt "github.com/pip-services3-gox/pip-services3-expressions-gox/verifsimrt"
)

const DefaultStepBudget = 1_000_000

// StepBudgetExceeded is the panic value the hook uses to abort an operation
// that does not terminate within its step budget.
type StepBudgetExceeded struct{ Steps int64 }

func (e StepBudgetExceeded) Error() string {
	return fmt.Sprintf("step budget exceeded after %d yield steps", e.Steps)
}

type Task struct {
	id       int
	resume   chan struct{}
	joined   chan struct{}
	finished atomic.Bool
	opSteps  atomic.Int64
	lastSite atomic.Int64
	locks    atomic.Int64 // locks of the code under test this task holds: it is never parked while > 0
	body     func()
	PanicVal any // set if body panicked (read after join)
}

// SchedEntry is one scheduling decision: run Task for Quantum yield steps,
// after advancing the simulated clock by JumpNs (synctest bubbles only).
type SchedEntry struct {
	Task    int   `json:"task"`
	Quantum int64 `json:"q"`
	JumpNs  int64 `json:"jump_ns,omitempty"`
}

type Run struct {
	tasks    []*Task
	parked   chan int
	curTask  atomic.Pointer[Task]
	quantum  atomic.Int64
	steps    atomic.Int64
	switches int64
	budget   int64
	multi    atomic.Bool
	coarse   atomic.Bool // park only at operation boundaries (ResetOpSteps), never inside library code

	// recorded by the scheduler goroutine only
	Executed []SchedEntry
	// (switch-out site, switch-in site) pairs seen, scheduler goroutine only
	switchPairs map[[2]int32]int
	SimTime     time.Duration
}

var (
	curRun   atomic.Pointer[Run]
	siteHits []atomic.Uint32 // per site, whole process
	soloTask = &Task{id: -1}
)

// InitSites sizes the per-site hit counters and installs the hooks.
func InitSites(n int) {
	siteHits = make([]atomic.Uint32, n+1)
	rt.Hook = hook
	rt.MapOrder = mapOrder
	rt.LockHook = lockHook
}

// lockHook keeps count of the locks the running task holds (the instrumenter
// reports sync.Mutex / RWMutex Lock and Unlock and sync.Once.Do of the library).
func lockHook(d int) {
	raceDisable()
	if r := curRun.Load(); r != nil {
		if t := r.curTask.Load(); t != nil {
			if t.locks.Add(int64(d)) < 0 {
				t.locks.Store(0)
			}
		}
	}
	raceEnable()
}

// Map iteration order is owned by the simulator: the instrumented copy ranges
// over verifsimrt.Keys(m) (sorted keys), which mapOrder permutes from a seed.
// Seed 0 leaves the sorted order. The call counter makes successive ranges
// see different permutations; it advances deterministically because exactly
// one task runs at a time.
var (
	mapOrderSeed atomic.Uint64
	mapOrderCtr  atomic.Uint64
	mapOrderUsed atomic.Uint64
)

func SetMapOrder(seed uint64) {
	raceDisable()
	mapOrderSeed.Store(seed)
	mapOrderCtr.Store(0)
	raceEnable()
}

func MapOrderCalls() uint64 { raceDisable(); n := mapOrderUsed.Load(); raceEnable(); return n }

func mapOrder(n int, swap func(i, j int)) {
	raceDisable()
	seed := mapOrderSeed.Load()
	c := mapOrderCtr.Add(1)
	if n >= 2 {
		mapOrderUsed.Add(1)
	}
	raceEnable()
	if seed == 0 || n < 2 {
		return
	}
	x := splitmix64(seed + c*0x9e3779b97f4a7c15)
	for i := n - 1; i > 0; i-- {
		x = splitmix64(x)
		swap(i, int(x%uint64(i+1)))
	}
}

func hook(site int) {
	raceDisable()
	r := curRun.Load()
	if r == nil {
		raceEnable()
		return
	}
	if site >= 0 && site < len(siteHits) {
		siteHits[site].Add(1)
	}
	t := r.curTask.Load()
	if t == nil {
		raceEnable()
		return
	}
	r.steps.Add(1)
	n := t.opSteps.Add(1)
	if n > r.budget {
		t.opSteps.Store(0)
		raceEnable()
		panic(StepBudgetExceeded{Steps: n})
	}
	if r.multi.Load() && t.id >= 0 && !r.coarse.Load() {
		// a task that holds a lock of the code under test runs on until it has released it: parking it
		// would make every other task that needs the lock block for real
		if r.quantum.Add(-1) <= 0 && t.locks.Load() == 0 {
			t.lastSite.Store(int64(site))
			r.parked <- t.id
			<-t.resume
		}
	}
	raceEnable()
}

// NewRun creates a run context. Channels are created here, so inside a
// synctest bubble NewRun must be called from within the bubble.
func NewRun(budget int64) *Run {
	if budget <= 0 {
		budget = DefaultStepBudget
	}
	r := &Run{parked: make(chan int), budget: budget, switchPairs: map[[2]int32]int{}}
	return r
}

// Solo runs f on the calling goroutine with step counting and the step budget
// but without scheduling (used for sequential reference phases).
func (r *Run) Solo(f func()) {
	raceDisable()
	prevRun := curRun.Load()
	prevTask := r.curTask.Load()
	soloTask.opSteps.Store(0)
	r.curTask.Store(soloTask)
	curRun.Store(r)
	raceEnable()
	defer func() {
		raceDisable()
		r.curTask.Store(prevTask)
		curRun.Store(prevRun)
		raceEnable()
	}()
	f()
}

// ResetOpSteps starts a new step budget for the operation the calling task
// is about to perform. In coarse mode it is also the only place where a task
// can be parked: between two API calls no lock of the code under test is held,
// so a change that blocks for real inside the library cannot wedge the run.
func (r *Run) ResetOpSteps() {
	raceDisable()
	if t := r.curTask.Load(); t != nil {
		t.opSteps.Store(0)
		if r.coarse.Load() && r.multi.Load() && t.id >= 0 {
			if r.quantum.Add(-1) <= 0 {
				t.lastSite.Store(-3)
				r.parked <- t.id
				<-t.resume
			}
		}
	}
	raceEnable()
}

// SetCoarse switches pre-emption to operation boundaries only; quanta then
// count operations, not yield steps.
func (r *Run) SetCoarse(on bool) {
	raceDisable()
	r.coarse.Store(on)
	raceEnable()
}

func (r *Run) Steps() int64    { raceDisable(); n := r.steps.Load(); raceEnable(); return n }
func (r *Run) Switches() int64 { return r.switches }
func (r *Run) SwitchPairs() map[[2]int32]int {
	return r.switchPairs
}

// AddTask registers a task body; all tasks must be added before Schedule.
func (r *Run) AddTask(body func()) *Task {
	t := &Task{id: len(r.tasks), resume: make(chan struct{}), joined: make(chan struct{}), body: body}
	t.lastSite.Store(-1)
	r.tasks = append(r.tasks, t)
	return t
}

// Chooser yields the next scheduling decision given the runnable task ids.
type Chooser interface {
	Next(runnable []int) SchedEntry
}

// Schedule forks every task, then runs them one at a time as the chooser
// decides until all are finished, and joins them with a real happens-before
// edge so that their results may be read afterwards.
func (r *Run) Schedule(ch Chooser) {
	if len(r.tasks) == 0 {
		return
	}
	raceDisable()
	prevRun := curRun.Load()
	r.multi.Store(true)
	curRun.Store(r)
	raceEnable()

	for _, t := range r.tasks {
		t := t
		go func() {
			raceDisable()
			<-t.resume
			raceEnable()
			defer func() {
				if p := recover(); p != nil {
					t.PanicVal = p
				}
				close(t.joined) // real release: results visible after join
				raceDisable()
				t.finished.Store(true)
				r.parked <- t.id
				raceEnable()
			}()
			t.body()
		}()
	}

	lastOutSite := int32(-1)
	lastTask := -1
	runnable := make([]int, 0, len(r.tasks))
	for {
		runnable = runnable[:0]
		raceDisable()
		for _, t := range r.tasks {
			if !t.finished.Load() {
				runnable = append(runnable, t.id)
			}
		}
		raceEnable()
		if len(runnable) == 0 {
			break
		}
		e := ch.Next(runnable)
		ok := false
		for _, id := range runnable {
			if id == e.Task {
				ok = true
			}
		}
		if !ok {
			continue // stale entry of a replayed schedule: task already finished
		}
		if e.Quantum <= 0 {
			e.Quantum = 1
		}
		if e.JumpNs > 0 {
			// a channel timer, not time.Sleep: with go1.26.8 Sleep inside an otherwise
			// idle synctest bubble can die with "bad g->status in ready"
			<-time.After(time.Duration(e.JumpNs))
			r.SimTime += time.Duration(e.JumpNs)
		}
		r.Executed = append(r.Executed, e)
		t := r.tasks[e.Task]
		raceDisable()
		inSite := int32(t.lastSite.Load())
		r.curTask.Store(t)
		r.quantum.Store(e.Quantum)
		t.resume <- struct{}{}
		<-r.parked
		outSite := int32(t.lastSite.Load())
		fin := t.finished.Load()
		raceEnable()
		if lastTask >= 0 && lastTask != e.Task {
			r.switches++
			r.switchPairs[[2]int32{lastOutSite, inSite}]++
		}
		lastTask = e.Task
		if fin {
			lastOutSite = -2
		} else {
			lastOutSite = outSite
		}
	}
	for _, t := range r.tasks {
		<-t.joined
	}
	raceDisable()
	r.multi.Store(false)
	r.curTask.Store(nil)
	curRun.Store(prevRun)
	raceEnable()
}

// SiteHitsSnapshot copies the per-site hit counters (whole process).
func SiteHitsSnapshot() []uint32 {
	out := make([]uint32, len(siteHits))
	for i := range siteHits {
		out[i] = siteHits[i].Load()
	}
	return out
}

// Heartbeat lets a long operation tell the driver's stall watchdog that the
// worker is alive (set by the batch loop; a no-op elsewhere).
var Heartbeat = func() {}
