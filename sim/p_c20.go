package sim

import (
	"fmt"
	"math"
	"time"

	"github.com/pip-services3-gox/pip-services3-expressions-gox/variants"
)

// C20 – variants hold what they were given: typed access, copies, equality.
// Histories over a few variant handles and caller-owned slices against a value
// model with explicit aliasing (DESIGN §4.7).

type propC20 struct{}

func init() { Register(propC20{}) }

func (propC20) ID() string { return "C20" }

const c20Handles = 4
const c20Slices = 2

var c20Hosts = []string{"int", "int32", "uint", "uint32", "int64", "float32", "float64", "bool", "string", "time", "duration", "array", "variant", "nil", "struct", "slice", "map", "goarray", "structslice", "ptr", "ifacestruct", "func", "variantvalue", "nilptr", "nilvariant"}

type c20Struct struct{ A int }

func c20Func(x int) int { return x + 1 }

func c20Scalar(r *Rand) Val {
	switch r.Intn(9) {
	case 0:
		return VInt(r.PickInt([]int{0, 1, -1, 42, math.MaxInt32, math.MinInt32}))
	case 1:
		return VLong([]int64{0, 7, -7, math.MaxInt64, math.MinInt64}[r.Intn(5)])
	case 2:
		return VFloat([]float32{0, 1.5, -2.25, float32(math.NaN()), float32(math.Inf(1))}[r.Intn(5)])
	case 3:
		return VDouble([]float64{0, 3.25, -1e300, math.NaN(), math.Inf(-1)}[r.Intn(5)])
	case 4:
		return VStr(r.Pick([]string{"", "a", "héllo", "null"}))
	case 5:
		return VBool(r.Bool(0.5))
	case 6:
		return VTime(time.Unix(int64(r.Intn(2_000_000_000)), int64(r.Intn(1000))).In(time.FixedZone("", (r.Intn(27)-12)*3600)))
	case 7:
		return VSpan(time.Duration(r.Int63n(1e12)) - 5e11)
	}
	return VNull()
}

func c20List(r *Rand) []Val {
	n := r.Range(0, 4)
	if r.Bool(0.1) {
		n = r.Range(5, 20) // capacities: growth and aliasing behave differently once append reallocates
	}
	out := make([]Val, n)
	for i := range out {
		out[i] = c20Scalar(r)
	}
	return out
}

func (propC20) Gen(r *Rand) *Plan {
	nops := r.Range(2, 24*r.Size())
	var ops []Op
	h := func() int { return r.Intn(c20Handles) }
	for i := 0; i < nops; i++ {
		if r.Bool(0.02) {
			// a motif: one row object twice in an outer array, a clone, the clone's second row replaced by a
			// near-copy, equality in both directions
			a, b := h(), h()
			row := []Val{VInt(1), VInt(2)}
			near := []Val{VInt(1), VInt(r.Range(2, 3))}
			ops = append(ops, Op{Op: "rows", H: a, Vs: row}, Op{Op: "clone", H: b, H2: a}, Op{Op: "nestelem", H: b, I: 1, Vs: near},
				Op{Op: "equals", H: a, H2: b}, Op{Op: "equals", H: b, H2: a})
			continue
		}
		switch r.Weighted([]int{8, 5, 3, 4, 4, 6, 2, 3, 5, 1, 4, 3, 4, 1, 2, 2, 2}) {
		case 14: // the caller appends to its own list (inside its capacity when there is room)
			v := c20Scalar(r)
			ops = append(ops, Op{Op: "appendslice", J: r.Intn(c20Slices), V: &v})
		case 15: // the same element object a second time in the same array
			ops = append(ops, Op{Op: "dupelem", H: h(), I: r.Intn(4), J: r.Intn(5)})
		case 16: // an array as element
			ops = append(ops, Op{Op: "nestelem", H: h(), I: r.Intn(4), Vs: c20List(r)})
		case 12: // change an element object in place, through the variant
			v := c20Scalar(r)
			ops = append(ops, Op{Op: "mutelem", H: h(), I: r.PickInt([]int{0, 0, 1, 2, 3, 4, 8}), V: &v})
		case 13: // deeply nested array
			v := c20Scalar(r)
			ops = append(ops, Op{Op: "nest", H: h(), I: r.PickInt([]int{1, 2, 3, 12, 63, 64, 65, 70, 130}), V: &v})
		case 0: // construct from a host value
			host := r.Pick(c20Hosts)
			o := Op{Op: "new", H: h(), S: host, H2: h(), J: r.Intn(c20Slices), I: r.Intn(2)}
			v := c20Scalar(r)
			o.V = &v
			o.Vs = c20List(r)
			ops = append(ops, o)
		case 1:
			v := c20Scalar(r)
			ops = append(ops, Op{Op: "set", H: h(), V: &v})
		case 2:
			host := r.Pick(c20Hosts)
			v := c20Scalar(r)
			ops = append(ops, Op{Op: "setobject", H: h(), S: host, H2: h(), J: r.Intn(c20Slices), V: &v, Vs: c20List(r)})
		case 3: // fill a caller-owned slice and hand it to a variant
			ops = append(ops, Op{Op: "setarray", H: h(), J: r.Intn(c20Slices), Vs: c20List(r)})
		case 4: // mutate the caller's slice afterwards
			v := c20Scalar(r)
			ops = append(ops, Op{Op: "mutslice", J: r.Intn(c20Slices), I: r.Intn(5), V: &v})
		case 5:
			v := c20Scalar(r)
			ops = append(ops, Op{Op: "setbyindex", H: h(), I: r.PickInt([]int{0, 0, 1, 2, 3, 5, 9, 16, 17, 33, 64}), V: &v, J: r.Intn(12)})
		case 6:
			ops = append(ops, Op{Op: "setlength", H: h(), I: r.PickInt([]int{0, 1, 2, 3, 4, 5, 6, 7, 8, 16, 17, 40})})
		case 7:
			ops = append(ops, Op{Op: "assign", H: h(), H2: h()})
		case 8:
			ops = append(ops, Op{Op: "clone", H: h(), H2: h()})
		case 9:
			ops = append(ops, Op{Op: "clear", H: h()})
		case 10:
			ops = append(ops, Op{Op: "equals", H: h(), H2: h()})
		case 11:
			ops = append(ops, Op{Op: "assignnil", H: h()})
		}
	}
	return &Plan{Config: map[string]string{"obs": fmt.Sprint(r.ObsStride())}, Tasks: []TaskPlan{{Ops: ops}}}
}

type c20Model struct {
	v     Val  // type and payload; arrays by value
	known bool // array content known (false after an in-place mutation through an allowed alias)
	// alias class of the list this handle holds: handles of one class may
	// physically share a list (Assign, construction from a variant); classes
	// outlive the handles that created them
	cls int
	// identity of the element objects of a known list (-1: a slot whose object was changed in
	// place through another holder - a shallow or a deep copy are both fine, so nothing is asserted)
	ids []int
	// copied: the list came from Clone / Assign / another variant; whether two positions that held one
	// object in the source still hold one object here is not fixed (a deep copy may split them)
	copied bool
}

func (propC20) Exec(p *Plan, x *Ctx) *Outcome {
	out := NewOutcome()
	if len(p.Tasks) == 0 {
		return out
	}
	ops := p.Tasks[0].Ops
	run := NewRun(0)
	mutations := 0
	stride := p.Stride()
	body := func() {
		hs := make([]*variants.Variant, c20Handles)
		ms := make([]*c20Model, c20Handles)
		for i := range hs {
			hs[i] = variants.EmptyVariant()
			ms[i] = &c20Model{v: VNull(), known: true, cls: -1}
		}
		nextCls := 0
		newCls := func() int { nextCls++; return nextCls }
		// element objects: every element the harness creates, and every null the library pads
		// with, is an object of its own
		elem := map[int]Val{}
		nextID := 0
		newIDs := func(vs []Val) []int {
			ids := make([]int, len(vs))
			for i := range vs {
				nextID++
				ids[i] = nextID
				elem[nextID] = vs[i]
			}
			return ids
		}
		sliceIDs := make([][]int, c20Slices)
		// refresh recomputes the expected element values of every known list from the objects
		refresh := func() {
			for _, m := range ms {
				if m.v.T == "Array" && m.known && len(m.ids) == len(m.v.A) {
					a := append([]Val{}, m.v.A...)
					for j, id := range m.ids {
						if id > 0 {
							a[j] = elem[id]
						}
					}
					m.v = Val{T: "Array", A: a}
				}
			}
		}
		// clsEdges[a][b]: an in-place mutation of a list of class a may legitimately
		// show through handles of class b (original -> clone: not asserted either way)
		clsEdges := map[int]map[int]bool{}
		slices := make([][]*variants.Variant, c20Slices)
		sliceModel := make([][]Val, c20Slices)
		inRange := func(h int) bool { return h >= 0 && h < c20Handles }
		aliases := func(h int) int {
			n := 0
			for y := 0; y < c20Handles; y++ {
				if y != h && ms[y].cls == ms[h].cls && ms[h].cls >= 0 {
					n++
				}
			}
			return n
		}
		taint := func(h int) {
			if ms[h].cls < 0 {
				return
			}
			reach := map[int]bool{ms[h].cls: true}
			stack := []int{ms[h].cls}
			for len(stack) > 0 {
				c := stack[len(stack)-1]
				stack = stack[:len(stack)-1]
				for d := 1; d <= nextCls; d++ {
					if clsEdges[c][d] && !reach[d] {
						reach[d] = true
						stack = append(stack, d)
					}
				}
			}
			for y := 0; y < c20Handles; y++ {
				if y != h && reach[ms[y].cls] {
					ms[y].known = false
				}
			}
		}
		setModel := func(h int, v Val) {
			ms[h].v = v
			ms[h].known = true
			ms[h].cls = -1
			ms[h].ids = nil
			ms[h].copied = false
			if v.T == "Array" {
				ms[h].cls = newCls()
				ms[h].ids = newIDs(v.A) // replaced by the right objects where the list was built from existing ones
			}
		}
		// the caller's lists have spare capacity now and then (also the empty ones): whether two slices share
		// memory depends on capacity, not only on length
		fillN := 0
		fill := func(vs []Val) []*variants.Variant {
			fillN++
			a := make([]*variants.Variant, len(vs), len(vs)+[]int{0, 0, 4, 1, 16}[fillN%5])
			for i := range vs {
				a[i] = vs[i].ToVariant()
			}
			return a
		}
		// host builds the Go host value of kind host; returns the value handed
		// to the library, the model value, and aliasing information
		type hostRes struct {
			val   any
			model Val
			share int // handle whose payload may be shared (-1 none)
			ok    bool
			ids   []int // element objects when the value is a list built from existing objects
			// observe: the model takes the value over from the variant (no assertion beyond "does not fail")
			observe bool
		}
		host := func(o Op) hostRes {
			v := VNull()
			if o.V != nil {
				v = *o.V
			}
			i64 := v.I
			if v.T != "Integer" && v.T != "Long" {
				i64 = int64(len(v.S)) + 3
			}
			switch o.S {
			case "int":
				return hostRes{val: int(i64), model: VInt(int(i64)), share: -1, ok: true}
			case "int32":
				return hostRes{val: int32(i64), model: VInt(int(int32(i64))), share: -1, ok: true}
			case "uint":
				u := uint(uint64(i64) & 0x7fffffffffffffff)
				return hostRes{val: u, model: VLong(int64(u)), share: -1, ok: true}
			case "uint32":
				return hostRes{val: uint32(i64), model: VLong(int64(uint32(i64))), share: -1, ok: true}
			case "int64":
				return hostRes{val: i64, model: VLong(i64), share: -1, ok: true}
			case "float32":
				f := float32(i64) / 4
				if v.T == "Float" {
					f = v.Float32()
				}
				return hostRes{val: f, model: VFloat(f), share: -1, ok: true}
			case "float64":
				f := float64(i64) / 8
				if v.T == "Double" {
					f = v.Float64()
				}
				return hostRes{val: f, model: VDouble(f), share: -1, ok: true}
			case "bool":
				return hostRes{val: v.B || i64%2 == 1, model: VBool(v.B || i64%2 == 1), share: -1, ok: true}
			case "string":
				return hostRes{val: v.S, model: VStr(v.S), share: -1, ok: true}
			case "time":
				t := time.Unix(i64%4_000_000_000, 0).UTC()
				if v.T == "DateTime" {
					t = v.Time()
				}
				return hostRes{val: t, model: VTime(t), share: -1, ok: true}
			case "duration":
				return hostRes{val: time.Duration(i64), model: VSpan(time.Duration(i64)), share: -1, ok: true}
			case "array":
				if o.J < 0 || o.J >= c20Slices {
					return hostRes{}
				}
				slices[o.J] = fill(o.Vs)
				sliceModel[o.J] = append([]Val{}, o.Vs...)
				sliceIDs[o.J] = newIDs(o.Vs)
				return hostRes{slices[o.J], VArr(o.Vs...), -1, true, append([]int{}, sliceIDs[o.J]...), false}
			case "variant":
				if !inRange(o.H2) || o.H2 == o.H {
					return hostRes{}
				}
				return hostRes{hs[o.H2], ms[o.H2].v, o.H2, true, append([]int{}, ms[o.H2].ids...), false}
			case "nil":
				return hostRes{val: nil, model: VNull(), share: -1, ok: true}
			case "struct":
				s := c20Struct{A: int(i64 % 100)}
				return hostRes{val: s, model: Val{T: "Object", S: fmt.Sprintf("%T:%v", s, s)}, share: -1, ok: true}
			case "slice":
				s := []int{int(i64 % 3), 7}
				return hostRes{val: s, model: Val{T: "Object", S: fmt.Sprintf("%T:%v", s, s)}, share: -1, ok: true}
			case "map":
				s := map[string]int{"k": int(i64 % 3)}
				return hostRes{val: s, model: Val{T: "Object", S: fmt.Sprintf("%T:%v", s, s)}, share: -1, ok: true}
			case "goarray": // a fixed-size Go array with uncomparable elements
				s := [2][]int{{int(i64 % 3)}, {7}}
				return hostRes{val: s, model: Val{T: "Object", S: fmt.Sprintf("%T:%v", s, s)}, share: -1, ok: true}
			case "structslice": // an uncomparable struct
				s := struct {
					A int
					B []string
				}{int(i64 % 3), []string{"x"}}
				return hostRes{val: s, model: Val{T: "Object", S: fmt.Sprintf("%T:%v", s, s)}, share: -1, ok: true}
			case "ptr":
				s := &c20Struct{A: int(i64 % 3)}
				return hostRes{val: s, model: Val{T: "Object", S: fmt.Sprintf("%T:%v", s, s)}, share: -1, ok: true}
			case "ifacestruct": // a struct type that is comparable statically but holds an uncomparable value
				s := struct{ A any }{[]int{int(i64 % 3)}}
				return hostRes{val: s, model: Val{T: "Object", S: fmt.Sprintf("%T:%v", s, s)}, share: -1, ok: true}
			case "variantvalue": // the library's own struct by value is an "other" host value
				s := *variants.VariantFromInteger(int(i64 % 7))
				return hostRes{val: s, model: Val{T: "Object", S: fmt.Sprintf("%T:%v", s, s)}, share: -1, ok: true}
			case "func":
				return hostRes{val: c20Func, model: Val{T: "Object", S: "func(int) int:c20Func"}, share: -1, ok: true}
			case "nilptr": // a typed nil pointer is an "other" host value like any pointer
				var s *c20Struct
				return hostRes{val: s, model: Val{T: "Object", S: fmt.Sprintf("%T:%v", s, s)}, share: -1, ok: true}
			case "nilvariant":
				// a nil *Variant is a host value of a supported type: building from it must not fail; what type
				// it gives (Null is the obvious one) is not pinned down by the statement, so the model takes
				// over what is observed
				return hostRes{val: (*variants.Variant)(nil), model: VNull(), share: -1, ok: true, observe: true}
			}
			return hostRes{}
		}
		applyHost := func(h int, r hostRes) {
			if r.observe {
				r.model = FromVariant(hs[h])
			}
			srcKnown := true
			if r.share >= 0 {
				srcKnown = ms[r.share].known
			}
			setModel(h, r.model)
			ms[h].known = srcKnown
			if r.model.T == "Array" && len(r.ids) == len(r.model.A) {
				ms[h].ids = r.ids // the list was built from existing element objects
				ms[h].copied = r.share >= 0
			}
			if r.share >= 0 && r.share != h && r.model.T == "Array" {
				// a variant built from another variant may share its list (not asserted either way)
				ms[h].cls = ms[r.share].cls
			}
		}

		checkAll := func(i int, o Op) bool {
			for h := 0; h < c20Handles; h++ {
				m := ms[h]
				got := FromVariant(hs[h])
				want := m.v
				role := "other"
				if h == o.H {
					role = "target"
				}
				if !m.known {
					if got.T != "Array" {
						out.Violate("value-model", fmt.Sprintf("C20/state/%s/%s/%s", o.Op, role, want.T),
							"after op %d (%s): handle %d is %s, model says an Array", i, o.Op, h, got)
						return false
					}
					continue
				}
				if want.T == "Array" && got.T == "Array" && len(got.A) == len(want.A) && len(m.ids) == len(want.A) {
					// slots whose object was changed in place through another holder are not asserted
					for j, id := range m.ids {
						if id < 0 {
							want.A[j] = got.A[j]
						}
					}
				}
				if !got.Equal(want) {
					out.Violate("value-model", fmt.Sprintf("C20/state/%s/%s/%s", o.Op, role, want.T),
						"after op %d (%s %s): handle %d holds %s, model says %s", i, o.Op, o.S, h, got, want)
					return false
				}
				if want.T == "Array" {
					if l := hs[h].Length(); l != len(want.A) {
						out.Violate("value-model", fmt.Sprintf("C20/length/%s", o.Op), "after op %d: handle %d Length() = %d, model %d", i, h, l, len(want.A))
						return false
					}
					for j := range want.A {
						if j < len(m.ids) && m.ids[j] < 0 {
							continue
						}
						if e := FromVariant(hs[h].GetByIndex(j)); !e.Equal(want.A[j]) {
							out.Violate("value-model", fmt.Sprintf("C20/getbyindex/%s", o.Op), "after op %d: handle %d [%d] = %s, model %s", i, h, j, e, want.A[j])
							return false
						}
					}
				}
				if hs[h].IsNull() != (want.T == "Null") {
					out.Violate("value-model", "C20/isnull", "after op %d: handle %d IsNull() = %v for %s", i, h, hs[h].IsNull(), want)
					return false
				}
			}
			return true
		}
		equalsBoth := func(i int, a, b int, why string, mustEqual bool) bool {
			var r1, r2 bool
			var p1, p2 any
			func() {
				defer func() { p1 = recover() }()
				r1 = hs[a].Equals(hs[b])
			}()
			func() {
				defer func() { p2 = recover() }()
				r2 = hs[b].Equals(hs[a])
			}()
			ta, tb := ms[a].v.T, ms[b].v.T
			if p1 != nil || p2 != nil {
				out.Violate("equals", fmt.Sprintf("C20/equals-panic/%s-%s", ta, tb), "op %d (%s): Equals of %s and %s panicked: %v%v", i, why, ms[a].v, ms[b].v, p1, p2)
				return false
			}
			if r1 != r2 {
				out.Violate("equals", fmt.Sprintf("C20/equals-asymmetric/%s-%s", ta, tb), "op %d (%s): x.Equals(y) = %v but y.Equals(x) = %v for %s and %s", i, why, r1, r2, ms[a].v, ms[b].v)
				return false
			}
			if mustEqual && !r1 {
				out.Violate("equals", fmt.Sprintf("C20/clone-not-equal/%s", ta), "op %d: a fresh clone of %s does not equal its original", i, ms[b].v)
				return false
			}
			return true
		}

		for i, o := range ops {
			run.ResetOpSteps()
			if !inRange(o.H) {
				continue
			}
			switch o.Op {
			case "new":
				r := host(o)
				if !r.ok {
					continue
				}
				if o.S == "array" && o.I%2 == 1 {
					hs[o.H] = variants.VariantFromArray(r.val.([]*variants.Variant))
				} else {
					hs[o.H] = variants.NewVariant(r.val)
				}
				applyHost(o.H, r)
				out.Probes["host_"+o.S]++
			case "setobject":
				r := host(o)
				if !r.ok {
					continue
				}
				hs[o.H].SetAsObject(r.val)
				applyHost(o.H, r)
				out.Probes["host_"+o.S]++
			case "set":
				if o.V == nil {
					continue
				}
				v := *o.V
				switch v.T {
				case "Integer":
					hs[o.H].SetAsInteger(int(v.I))
				case "Long":
					hs[o.H].SetAsLong(v.I)
				case "Float":
					hs[o.H].SetAsFloat(v.Float32())
				case "Double":
					hs[o.H].SetAsDouble(v.Float64())
				case "String":
					hs[o.H].SetAsString(v.S)
				case "Boolean":
					hs[o.H].SetAsBoolean(v.B)
				case "DateTime":
					hs[o.H].SetAsDateTime(v.Time())
				case "TimeSpan":
					hs[o.H].SetAsTimeSpan(time.Duration(v.I))
				default:
					hs[o.H].Clear()
					v = VNull()
				}
				setModel(o.H, v)
			case "setarray":
				if o.J < 0 || o.J >= c20Slices {
					continue
				}
				slices[o.J] = fill(o.Vs)
				sliceModel[o.J] = append([]Val{}, o.Vs...)
				sliceIDs[o.J] = newIDs(o.Vs)
				hs[o.H].SetAsArray(slices[o.J])
				setModel(o.H, VArr(o.Vs...))
				ms[o.H].ids = append([]int{}, sliceIDs[o.J]...)
			case "mutslice":
				if o.J < 0 || o.J >= c20Slices || o.V == nil || len(slices[o.J]) == 0 {
					continue
				}
				k := o.I % len(slices[o.J])
				if k < 0 {
					k = -k
				}
				slices[o.J][k] = o.V.ToVariant() // the caller changes its own list
				if k < len(sliceIDs[o.J]) {
					sliceIDs[o.J][k] = newIDs([]Val{*o.V})[0]
				}
				out.Probes["caller_slice_mutated"]++
				mutations++
			case "setbyindex":
				if ms[o.H].v.T != "Array" || o.V == nil || o.I < 0 || o.I > 64 {
					continue
				}
				if o.J == 7 {
					// a nil element: allowed by the API, Equals and accessors have to cope
					hs[o.H].SetByIndex(o.I, nil)
					nilv := Val{T: "<nil>"}
					o.V = &nilv
					out.Probes["nil_element_written"]++
				} else {
					hs[o.H].SetByIndex(o.I, o.V.ToVariant())
				}
				taint(o.H)
				if ms[o.H].known {
					a := ms[o.H].v.A
					if o.I >= len(a) {
						out.Probes["setbyindex_past_end"]++
					}
					ids := append([]int{}, ms[o.H].ids...)
					for len(ids) < len(a) {
						ids = append(ids, -1)
					}
					for len(a) <= o.I {
						a = append(a, VNull())
						ids = append(ids, newIDs([]Val{VNull()})[0]) // every padding null is an object of its own
					}
					a = append([]Val{}, a...)
					a[o.I] = *o.V
					ids[o.I] = newIDs([]Val{*o.V})[0]
					ms[o.H].v = Val{T: "Array", A: a}
					ms[o.H].ids = ids
				}
				if aliases(o.H) > 0 {
					out.Probes["mutate_with_alias_edges"]++
				}
				mutations++
			case "setlength":
				if ms[o.H].v.T != "Array" || !ms[o.H].known || o.I < len(ms[o.H].v.A) || o.I > 64 {
					continue
				}
				hs[o.H].SetLength(o.I)
				taint(o.H)
				a := append([]Val{}, ms[o.H].v.A...)
				ids := append([]int{}, ms[o.H].ids...)
				for len(ids) < len(a) {
					ids = append(ids, -1)
				}
				for len(a) < o.I {
					a = append(a, VNull())
					ids = append(ids, newIDs([]Val{VNull()})[0])
				}
				ms[o.H].v = Val{T: "Array", A: a}
				ms[o.H].ids = ids
				mutations++
			case "assign":
				if !inRange(o.H2) {
					continue
				}
				hs[o.H].Assign(hs[o.H2])
				if o.H != o.H2 {
					src := ms[o.H2]
					setModel(o.H, src.v)
					ms[o.H].known = src.known
					if src.v.T == "Array" {
						ms[o.H].cls = src.cls
						ms[o.H].ids = append([]int{}, src.ids...)
						ms[o.H].copied = true
					}
				}
			case "assignnil":
				hs[o.H].Assign(nil)
				setModel(o.H, VNull())
			case "clone":
				if !inRange(o.H2) {
					continue
				}
				c := hs[o.H2].Clone()
				src := ms[o.H2]
				if o.H != o.H2 {
					hs[o.H] = c
					setModel(o.H, src.v)
					ms[o.H].known = src.known
					ms[o.H].ids = append([]int{}, src.ids...) // a clone may hold the same element objects (shallow) or copies
					ms[o.H].copied = true
					// mutating the original is not promised to leave the clone alone;
					// mutating the clone must leave the original alone
					if src.v.T == "Array" {
						if clsEdges[src.cls] == nil {
							clsEdges[src.cls] = map[int]bool{}
						}
						clsEdges[src.cls][ms[o.H].cls] = true
					}
					// a slot whose object was changed in place through another holder (id -1) is not
					// tracked by the model: what it holds now (possibly a NaN, which equals nothing) is read
					// from the source itself
					if src.known && !src.v.HasNaN() && !FromVariant(hs[o.H2]).HasNaN() {
						if !equalsBoth(i, o.H, o.H2, "clone", true) {
							return
						}
					}
					if src.v.T == "Array" {
						out.Probes["clone_of_array"]++
					}
				}
			case "mutelem":
				m := ms[o.H]
				if m.v.T != "Array" || !m.known || o.V == nil || o.I < 0 || o.I >= len(m.v.A) || len(m.ids) != len(m.v.A) || m.v.A[o.I].T == "Array" || m.v.A[o.I].T == "<nil>" {
					continue
				}
				id := m.ids[o.I]
				if id <= 0 {
					continue
				}
				// the element object itself is changed, through this variant
				hs[o.H].GetByIndex(o.I).Assign(o.V.ToVariant())
				if m.copied {
					// in a copied list, other positions that held the same object in the source may or may not
					// hold the same object here
					for j := range m.ids {
						if j != o.I && m.ids[j] == id {
							m.ids[j] = -1
						}
					}
				}
				elem[id] = *o.V
				// other holders of the same object (clones, assigned variants, the caller's slice) may
				// hold it or a copy of it: their slot is no longer asserted
				for y := 0; y < c20Handles; y++ {
					if y == o.H {
						continue
					}
					for j, other := range ms[y].ids {
						if other == id {
							ms[y].ids[j] = -1
							if j < len(ms[y].v.A) {
								out.Probes["element_shared_when_mutated"]++
							}
						}
					}
				}
				out.Probes["element_mutated_in_place"]++
				mutations++
			case "nest":
				if o.V == nil || o.I < 1 || o.I > 200 {
					continue
				}
				v := *o.V
				for d := 0; d < o.I; d++ {
					v = VArr(v)
				}
				hs[o.H] = v.ToVariant()
				setModel(o.H, v)
				if o.I > 60 {
					out.Probes["nested_deeper_than_60"]++
				}
			case "appendslice":
				if o.J < 0 || o.J >= c20Slices || o.V == nil || slices[o.J] == nil {
					continue
				}
				slices[o.J] = append(slices[o.J], o.V.ToVariant()) // the caller's own list grows (in place when capacity allows)
				sliceIDs[o.J] = append(sliceIDs[o.J], newIDs([]Val{*o.V})[0])
				out.Probes["caller_slice_appended"]++
				mutations++
			case "dupelem":
				m := ms[o.H]
				if m.v.T != "Array" || !m.known || len(m.ids) != len(m.v.A) || o.I < 0 || o.I >= len(m.v.A) || o.J < 0 || o.J > len(m.v.A) || o.J > 64 {
					continue
				}
				// the element object at I is put at J as well: one object, two positions
				el := hs[o.H].GetByIndex(o.I)
				hs[o.H].SetByIndex(o.J, el)
				taint(o.H)
				a := append([]Val{}, m.v.A...)
				ids := append([]int{}, m.ids...)
				for len(a) <= o.J {
					a = append(a, VNull())
					ids = append(ids, newIDs([]Val{VNull()})[0])
				}
				a[o.J] = a[o.I]
				ids[o.J] = ids[o.I]
				m.v = Val{T: "Array", A: a}
				m.ids = ids
				out.Probes["element_object_twice_in_one_array"]++
				mutations++
			case "nestelem", "rows":
				m := ms[o.H]
				if o.Op == "rows" {
					// a fresh outer array holding one row object twice
					row := VArr(o.Vs...).ToVariant()
					hs[o.H] = variants.VariantFromArray([]*variants.Variant{row, row})
					setModel(o.H, VArr(VArr(o.Vs...), VArr(o.Vs...)))
					id := newIDs([]Val{VArr(o.Vs...)})[0]
					ms[o.H].ids = []int{id, id}
					out.Probes["element_object_twice_in_one_array"]++
					mutations++
					break
				}
				if m.v.T != "Array" || !m.known || len(m.ids) != len(m.v.A) || o.I < 0 || o.I > len(m.v.A) || o.I > 64 {
					continue
				}
				hs[o.H].SetByIndex(o.I, VArr(o.Vs...).ToVariant())
				taint(o.H)
				a := append([]Val{}, m.v.A...)
				ids := append([]int{}, m.ids...)
				for len(a) <= o.I {
					a = append(a, VNull())
					ids = append(ids, newIDs([]Val{VNull()})[0])
				}
				a[o.I] = VArr(o.Vs...)
				ids[o.I] = newIDs([]Val{a[o.I]})[0]
				m.v = Val{T: "Array", A: a}
				m.ids = ids
				mutations++
			case "clear":
				hs[o.H].Clear()
				setModel(o.H, VNull())
			case "equals":
				if !inRange(o.H2) {
					continue
				}
				if ms[o.H].v.T == "Array" && ms[o.H2].v.T == "Array" {
					out.Probes["equals_on_arrays"]++
				}
				if !equalsBoth(i, o.H, o.H2, "equals", false) {
					return
				}
			default:
				continue
			}
			out.Event("%s h=%d", o.Op, o.H)
			st := NewHasher()
			for h := 0; h < c20Handles; h++ {
				st.Str(ms[h].v.T).Int(int64(len(ms[h].v.A))).Int(int64(aliases(h)))
			}
			out.ModelStates = append(out.ModelStates, st.Sum())
			refresh()
			if !Observe(stride, i, len(ops)) {
				continue
			}
			if !checkAll(i, o) {
				return
			}
		}
		// the package-level null constant must still be a null
		if e := FromVariant(variants.Empty); e.T != "Null" {
			out.Violate("value-model", "C20/variants.Empty-changed", "variants.Empty is %s after the history", e)
		}
	}
	t := run.AddTask(body)
	run.Schedule(&ReplayChooser{})
	if t.PanicVal != nil {
		if sb, ok := t.PanicVal.(StepBudgetExceeded); ok {
			out.Violate("liveness", "C20/step-budget", "%v", sb)
		} else {
			out.Violate("no-panic", "C20/panic", "operation panicked: %v", t.PanicVal)
		}
	}
	out.Steps = run.Steps()
	out.Nontrivial = len(ops) >= 3 && mutations >= 1
	out.CaseSig = HashJSON(ops)
	return out
}
