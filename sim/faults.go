package sim

import (
	"errors"
	"fmt"
	"strings"

	cerrors "github.com/pip-services3-gox/pip-services3-commons-gox/errors"

	"github.com/pip-services3-gox/pip-services3-expressions-gox/calculator/functions"
	"github.com/pip-services3-gox/pip-services3-expressions-gox/calculator/variables"
	sio "github.com/pip-services3-gox/pip-services3-expressions-gox/io"
	"github.com/pip-services3-gox/pip-services3-expressions-gox/variants"
)

// Fault injectors. All of them sit at caller-supplied seams (DESIGN §1, §3.4)
// and are pass-throughs to the real implementation except where a fault is
// scheduled. Each counts the seam calls it sees, so that a fault can be placed
// inside an operation (call index drawn from a fault-free dry run).

// ---- io.IScanner ------------------------------------------------------------

// ScannerFailure is the panic value of a scanner that "fails" (the IScanner
// interface has no error result: a custom scanner over a real stream can only
// report an I/O failure by panicking).
type ScannerFailure struct{ Call int }

type SimScanner struct {
	inner   *sio.StringScanner
	Calls   int
	FailAt  int // panic at this call index (1-based); 0 = never
	Fired   bool
	SawEOF  bool
	Content []rune
}

// NewSimScanner wraps content; eofAt >= 0 makes the stream end early after
// eofAt characters.
func NewSimScanner(content string, eofAt int, failAt int) *SimScanner {
	r := []rune(content)
	if eofAt >= 0 && eofAt < len(r) {
		r = r[:eofAt]
	}
	return &SimScanner{inner: sio.NewStringScanner(string(r)), FailAt: failAt, Content: r}
}

func (s *SimScanner) call() {
	s.Calls++
	if s.FailAt > 0 && s.Calls == s.FailAt {
		s.Fired = true
		panic(ScannerFailure{Call: s.Calls})
	}
}

func (s *SimScanner) Read() rune {
	s.call()
	c := s.inner.Read()
	if c == -1 {
		s.SawEOF = true
	}
	return c
}
func (s *SimScanner) Line() int       { s.call(); return s.inner.Line() }
func (s *SimScanner) Column() int     { s.call(); return s.inner.Column() }
func (s *SimScanner) Peek() rune      { s.call(); return s.inner.Peek() }
func (s *SimScanner) PeekLine() int   { s.call(); return s.inner.PeekLine() }
func (s *SimScanner) PeekColumn() int { s.call(); return s.inner.PeekColumn() }
func (s *SimScanner) Unread()         { s.call(); s.inner.Unread() }
func (s *SimScanner) UnreadMany(n int) {
	s.call()
	s.inner.UnreadMany(n)
}
func (s *SimScanner) Reset() { s.call(); s.inner.Reset() }

// Remaining counts the characters not yet consumed (moves the cursor to the end).
func (s *SimScanner) Remaining() int {
	n := 0
	for s.inner.Read() != -1 {
		n++
	}
	return n
}

// ---- functions.IFunction ------------------------------------------------------

var ErrInjected = errors.New("injected fault")

// FaultyDelegate returns a FunctionCalculator that passes through to inner
// (or returns its first parameter / Null when inner is nil) except at its
// at-th invocation, where it returns an error or panics.
type FnFault struct {
	Kind string // fn_error | fn_panic | fn_both | fn_reenter | ""
	// Reenter (fn_reenter): what the delegate does instead of computing - it calls back into the object that is calling it
	Reenter func() (*variants.Variant, error)
	At      int // 1-based invocation index
	Msg     int // which failure text / error type (see FailureText)
	Calls   int
	Fired   bool
}

type customError struct{ s string }

func (e *customError) Error() string { return e.s }

// FailureText varies what a failing delegate says: the text and type of a
// caller's error or panic value are part of the fault space.
func FailureText(k int) string {
	if k < 0 {
		k = -k
	}
	switch k % 8 {
	case 0:
		return "injected fault"
	case 1:
		return ""
	case 2:
		return strings.Repeat("long failure text ", 12) // 216 bytes, ASCII
	case 3:
		return strings.Repeat("ошибка вычисления ", 6) // 108 runes, 198 bytes
	case 4:
		return strings.Repeat("計算に失敗しました。", 9) // 90 runes, 270 bytes
	case 5:
		return "100% %s %d %v {{x}} \"quoted\"\n second line"
	case 6:
		return strings.Repeat("x", 5000)
	default:
		return "é"
	}
}

// FailureError builds the error value for a failure text: plain error, a
// custom error type, or an ApplicationError as the library's own errors are.
func FailureError(k int) error {
	if k < 0 {
		k = -k
	}
	switch (k / 8) % 3 {
	case 0:
		return errors.New(FailureText(k))
	case 1:
		return &customError{FailureText(k)}
	default:
		return cerrors.NewBadRequestError("", "INJECTED", FailureText(k))
	}
}

// values whose own methods misbehave when somebody formats them
type nilRecvError struct{ msg string }

func (e *nilRecvError) Error() string { return e.msg } // with a nil receiver: nil dereference

type panickyError struct{}

func (panickyError) Error() string { panic("Error() of the panic value panics") }

type panickyStringer struct{}

func (panickyStringer) String() string { panic("String() of the panic value panics") }

// PanicValue is what a delegate panics with: texts, error values of several types, and (one in
// three) values that are awkward to report - a typed nil error, an error or Stringer whose own
// method panics, a genuine runtime error, an int, a struct, an uncomparable value, a wrapped error.
func PanicValue(k int) (v any) {
	if k < 0 {
		k = -k
	}
	switch sel := k % 24; {
	case sel < 8:
		return FailureText(k)
	case sel < 16:
		return FailureError(k) // an error value as panic value
	case sel == 16:
		return (*nilRecvError)(nil)
	case sel == 17:
		return panickyError{}
	case sel == 18:
		return panickyStringer{}
	case sel == 19:
		func() {
			defer func() { v = recover() }()
			var m map[string]int
			m["x"] = k // a genuine runtime.Error
		}()
		return v
	case sel == 20:
		return k
	case sel == 21:
		return struct {
			Code int
			Why  string
		}{k, FailureText(k)}
	case sel == 22:
		return []int{k}
	default:
		return fmt.Errorf("wrapped: %w", FailureError(k))
	}
}

func (f *FnFault) Delegate(inner functions.FunctionCalculator) functions.FunctionCalculator {
	return func(params []*variants.Variant, ops variants.IVariantOperations) (*variants.Variant, error) {
		f.Calls++
		if f.Kind != "" && f.Calls == f.At {
			f.Fired = true
			if f.Kind == "fn_panic" {
				panic(PanicValue(f.Msg))
			}
			if f.Kind == "fn_reenter" && f.Reenter != nil {
				return f.Reenter()
			}
			if f.Kind == "fn_both" {
				// a sloppy delegate: an error together with a non-nil result
				return variants.VariantFromInteger(-1), FailureError(f.Msg)
			}
			return nil, FailureError(f.Msg)
		}
		if inner != nil {
			return inner(params, ops)
		}
		if len(params) > 0 {
			return params[0], nil
		}
		return variants.EmptyVariant(), nil
	}
}

// PlainFaultyFunction is an IFunction that is not a DelegatedFunction.
type PlainFaultyFunction struct {
	FName string
	F     *FnFault
}

func (p *PlainFaultyFunction) Name() string { return p.FName }
func (p *PlainFaultyFunction) Calculate(params []*variants.Variant, ops variants.IVariantOperations) (*variants.Variant, error) {
	p.F.Calls++
	if p.F.Kind != "" && p.F.Calls == p.F.At {
		p.F.Fired = true
		return nil, FailureError(p.F.Msg)
	}
	if len(params) > 0 {
		return params[0], nil
	}
	return variants.EmptyVariant(), nil
}

// ---- variables.IVariableCollection -----------------------------------------------

type SimVariables struct {
	*variables.VariableCollection
	Missing string // this name is reported as not found
	Calls   int
	Fired   bool
}

func (s *SimVariables) FindByName(name string) variables.IVariable {
	s.Calls++
	if s.Missing != "" && strings.EqualFold(name, s.Missing) {
		s.Fired = true
		return nil
	}
	return s.VariableCollection.FindByName(name)
}

// ---- variants.IVariantOperations ---------------------------------------------------

type SimOps struct {
	Inner   variants.IVariantOperations
	ErrorAt int // 1-based call index that fails; 0 = never
	Calls   int
	Fired   bool
}

func (s *SimOps) hit() bool {
	s.Calls++
	if s.ErrorAt > 0 && s.Calls == s.ErrorAt {
		s.Fired = true
		return true
	}
	return false
}

func (s *SimOps) Convert(v *variants.Variant, t variants.VariantType) (*variants.Variant, error) {
	if s.hit() {
		return nil, ErrInjected
	}
	return s.Inner.Convert(v, t)
}

func (s *SimOps) bin(f func(a, b *variants.Variant) (*variants.Variant, error), a, b *variants.Variant) (*variants.Variant, error) {
	if s.hit() {
		return nil, ErrInjected
	}
	return f(a, b)
}

func (s *SimOps) Add(a, b *variants.Variant) (*variants.Variant, error) {
	return s.bin(s.Inner.Add, a, b)
}
func (s *SimOps) Sub(a, b *variants.Variant) (*variants.Variant, error) {
	return s.bin(s.Inner.Sub, a, b)
}
func (s *SimOps) Mul(a, b *variants.Variant) (*variants.Variant, error) {
	return s.bin(s.Inner.Mul, a, b)
}
func (s *SimOps) Div(a, b *variants.Variant) (*variants.Variant, error) {
	return s.bin(s.Inner.Div, a, b)
}
func (s *SimOps) Mod(a, b *variants.Variant) (*variants.Variant, error) {
	return s.bin(s.Inner.Mod, a, b)
}
func (s *SimOps) Pow(a, b *variants.Variant) (*variants.Variant, error) {
	return s.bin(s.Inner.Pow, a, b)
}
func (s *SimOps) And(a, b *variants.Variant) (*variants.Variant, error) {
	return s.bin(s.Inner.And, a, b)
}
func (s *SimOps) Or(a, b *variants.Variant) (*variants.Variant, error) {
	return s.bin(s.Inner.Or, a, b)
}
func (s *SimOps) Xor(a, b *variants.Variant) (*variants.Variant, error) {
	return s.bin(s.Inner.Xor, a, b)
}
func (s *SimOps) Lsh(a, b *variants.Variant) (*variants.Variant, error) {
	return s.bin(s.Inner.Lsh, a, b)
}
func (s *SimOps) Rsh(a, b *variants.Variant) (*variants.Variant, error) {
	return s.bin(s.Inner.Rsh, a, b)
}
func (s *SimOps) Not(a *variants.Variant) (*variants.Variant, error) {
	if s.hit() {
		return nil, ErrInjected
	}
	return s.Inner.Not(a)
}
func (s *SimOps) Negative(a *variants.Variant) (*variants.Variant, error) {
	if s.hit() {
		return nil, ErrInjected
	}
	return s.Inner.Negative(a)
}
func (s *SimOps) Equal(a, b *variants.Variant) (*variants.Variant, error) {
	return s.bin(s.Inner.Equal, a, b)
}
func (s *SimOps) NotEqual(a, b *variants.Variant) (*variants.Variant, error) {
	return s.bin(s.Inner.NotEqual, a, b)
}
func (s *SimOps) More(a, b *variants.Variant) (*variants.Variant, error) {
	return s.bin(s.Inner.More, a, b)
}
func (s *SimOps) Less(a, b *variants.Variant) (*variants.Variant, error) {
	return s.bin(s.Inner.Less, a, b)
}
func (s *SimOps) MoreEqual(a, b *variants.Variant) (*variants.Variant, error) {
	return s.bin(s.Inner.MoreEqual, a, b)
}
func (s *SimOps) LessEqual(a, b *variants.Variant) (*variants.Variant, error) {
	return s.bin(s.Inner.LessEqual, a, b)
}
func (s *SimOps) In(a, b *variants.Variant) (*variants.Variant, error) {
	return s.bin(s.Inner.In, a, b)
}
func (s *SimOps) GetElement(a, b *variants.Variant) (*variants.Variant, error) {
	return s.bin(s.Inner.GetElement, a, b)
}
