package sim

import (
	"fmt"
	"regexp"
	"strings"
)

// C03 – a result or an error, always: FAULT AND LIVENESS CLAUSES ONLY
// (DESIGN §4.8). Histories on one reused instance with faults at the seams
// (scanner fails / ends early, consumer abandons, function delegate fails or
// panics, variable missing, operations manager fails) under a monitor: no
// panic other than the scanner's own, exactly one of result / error, a fired
// fault surfaces as an error, every operation ends within its step budget and
// a tokenization yields no more tokens than characters + 1. The fault-free
// batch runs the same generators under the same monitor. "For every input
// string" is NOT decided here.

type propC03 struct{}

func init() { Register(propC03{}) }

func (propC03) ID() string { return "C03" }

func (propC03) Gen(r *Rand) *Plan {
	p := &Plan{Config: map[string]string{}}
	faults := r.Bool(0.7)
	p.Config["faults"] = map[bool]string{true: "on", false: "off"}[faults]
	kind := r.Pick(c05Kinds)
	if faults && r.Bool(0.5) {
		kind = r.Pick([]string{"calc", "calc", "gentok", "exprtok", "csvtok", "musttok"})
	}
	tp := c05GenTask(r, kind, true, -1, -1)
	// more faults than in C05: most steps carry one
	for i := range tp.Ops {
		if isTokKind(kind) && (tp.Ops[i].Op == "buffer" || tp.Ops[i].Op == "stream" || tp.Ops[i].Op == "manual") && r.Bool(0.15) {
			tp.Ops[i].F = &Fault{Kind: r.Pick([]string{"state_nil", "state_empty"}), At: r.Intn(1 << 20)}
		}
		if tp.Ops[i].F == nil && r.Bool(0.5) && tp.Ops[i].Op != "strings" && tp.Ops[i].Op != "streamstrings" && tp.Ops[i].Op != "config" {
			tp.Ops[i].F = c05Fault(r, kind, tp.Ops[i].Op)
			if f := tp.Ops[i].F; f != nil && strings.HasPrefix(f.Kind, "fn_") {
				name := "Faulty"
				if f.Kind == "fn_error_plain" {
					name = "PlainFaulty"
				}
				s := tp.Ops[i].S
				if strings.TrimSpace(s) == "" {
					s = "1"
				}
				tp.Ops[i].S = faultyShape(r, name, s)
				f.At = f.At&^0xff | faultyCallIndex(r, tp.Ops[i].S, name)
			}
		}
		if kind == "calc" && r.Bool(0.25) {
			// calls of built-in functions with seeded arguments (the C08 generator)
			tp.Ops[i].S = c08CallText(r)
			if f := tp.Ops[i].F; f != nil && strings.HasPrefix(f.Kind, "fn_") {
				tp.Ops[i].F = &Fault{Kind: "op_error", At: r.Intn(1 << 20)}
			}
		}
	}
	p.Tasks = []TaskPlan{tp}
	return p
}

var numRe = regexp.MustCompile(`0x[0-9a-f]+|\d+`)

func normPanic(msg string) string {
	msg = numRe.ReplaceAllString(msg, "N")
	msg = strings.Map(func(r rune) rune {
		switch {
		case r >= 'a' && r <= 'z', r >= 'A' && r <= 'Z', r == 'N':
			return r
		}
		return '_'
	}, msg)
	for strings.Contains(msg, "__") {
		msg = strings.ReplaceAll(msg, "__", "_")
	}
	if len(msg) > 60 {
		msg = msg[:60]
	}
	return strings.Trim(msg, "_")
}

func (propC03) Exec(p *Plan, x *Ctx) *Outcome {
	out := NewOutcome()
	if len(p.Tasks) == 0 {
		return out
	}
	tp := p.Tasks[0]
	run := NewRun(0)
	faultsOn := p.Cfg("faults", "on") == "on"
	type stepRes struct {
		got string
		st  stepStats
	}
	results := make([]stepRes, len(tp.Ops))
	executed := 0
	t := run.AddTask(func() {
		in := newInstance(tp.Kind, tp.Text)
		for i, o := range tp.Ops {
			if !faultsOn {
				o.F = nil
			}
			var dry stepStats
			if o.F != nil {
				run.ResetOpSteps()
				od := o
				od.F = nil
				_, dry = newInstance(tp.Kind, tp.Text).step(od, tp.Sets, nil)
			}
			run.ResetOpSteps()
			results[i].got, results[i].st = in.step(o, tp.Sets, &dry)
			results[i].got = c05MaskVolatile(results[i].got) // values of clock / random calls are not part of the outcome
			executed = i + 1
		}
	})
	run.Schedule(&ReplayChooser{})
	if t.PanicVal != nil {
		out.Violate("no-panic", "C03/harness-task-panic", "task body panicked: %v", t.PanicVal)
	}
	fired := 0
	for i := 0; i < executed; i++ {
		o := tp.Ops[i]
		r := results[i]
		out.Event("%d %s", i, r.got)
		fk := "none"
		if r.st.fired != "" {
			out.Faults[r.st.fired]++
			fk = r.st.fired
			fired++
		}
		out.State(tp.Kind, o.Op, fk, outcomeKind(r.got))
		where := fmt.Sprintf("step %d of a %s instance (options %q): %s(%q) fault %s", i, tp.Kind, tp.Text, o.Op, o.S, fk)
		switch {
		case strings.HasPrefix(r.got, "step-budget:"):
			out.Violate("liveness", "C03/step-budget/"+tp.Kind, "%s: %s", where, r.got)
			continue
		case r.st.libPanic:
			out.Violate("no-panic", fmt.Sprintf("C03/panic/%s/%s/%s", tp.Kind, r.st.panicFn, normPanic(r.st.panicMsg)),
				"%s: panic %q in %s", where, r.st.panicMsg, r.st.panicFn)
			continue
		}
		if r.st.progressBad != "" {
			out.Violate("liveness", "C03/progress/"+tp.Kind, "%s: %s", where, r.st.progressBad)
		}
		// a runaway tokenization (far more tokens than characters) is a liveness failure; the bound is
		// generous because the statement does not forbid an occasional zero-width token
		if isTokKind(tp.Kind) && !strings.HasPrefix(r.got, "scanner-failure") && r.st.tokens > 4*r.st.contentLen+8 {
			out.Violate("liveness", "C03/progress/"+tp.Kind, "%s: %d tokens from %d characters: some token consumed nothing", where, r.st.tokens, r.st.contentLen)
		}
		if strings.Contains(r.got, "eval=NEITHER") {
			out.Violate("result-xor-error", "C03/neither/"+fk, "%s: evaluation returned neither a result nor an error", where)
		}
		if strings.Contains(r.got, "eval=BOTH") {
			out.Violate("result-xor-error", "C03/both/"+fk, "%s: evaluation returned both a result and an error: %s", where, clip(r.got))
		}
		switch r.st.fired {
		case "op_error":
			// a failing operations manager must not crash or yield nothing; whether every such failure has to
			// end the evaluation is not said by the statement (it lists failing *functions*), so only the
			// result-xor-error monitor above applies
		case "fn_error", "fn_panic", "fn_error_plain", "fn_both", "var_missing":
			if !strings.Contains(r.got, "eval=error:") && !strings.Contains(r.got, "eval=NEITHER") && !strings.Contains(r.got, "eval=BOTH") {
				out.Violate("fault-surfaces", "C03/fault-swallowed/"+r.st.fired, "%s: the fault fired but the evaluation gave %s", where, clip(r.got))
			}
		case "fn_reenter":
			// a function that calls back into its calculator returns what that evaluation gave; only the
			// no-panic / liveness / result-xor-error monitors apply
		case "fail_at":
			// the scanner's own panic may propagate or be absorbed; any *other* panic was reported above
		}
	}
	out.Steps = run.Steps()
	out.Nontrivial = fired >= 1
	out.CaseSig = NewHasher().Int(int64(HashJSON(p.Tasks))).Str(p.Cfg("faults", "on")).Sum()
	if !faultsOn {
		out.Probes["fault_free_runs"]++
	}
	return out
}

func outcomeKind(s string) string {
	switch {
	case strings.HasPrefix(s, "panic:"):
		return "panic"
	case strings.HasPrefix(s, "scanner-failure"):
		return "scanner-failure"
	case strings.Contains(s, "eval=error:"), strings.HasPrefix(s, "set-err="), strings.HasPrefix(s, "err=") && !strings.HasPrefix(s, "err=|"):
		return "error"
	}
	return "ok"
}
