package sim

import (
	"fmt"

	sio "github.com/pip-services3-gox/pip-services3-expressions-gox/io"
	"github.com/pip-services3-gox/pip-services3-expressions-gox/tokenizers"
	"github.com/pip-services3-gox/pip-services3-expressions-gox/tokenizers/generic"
	"github.com/pip-services3-gox/pip-services3-expressions-gox/tokenizers/utilities"
)

// C17 – character-class maps answer with the latest covering registration.
// Histories of AddInterval / AddDefaultInterval / Clear / Lookup against a
// "newest covering registration wins" model, on the raw map and through the
// three users of it (tokenizer character states, word chars, whitespace chars).

type propC17 struct{}

func init() { Register(propC17{}) }

func (propC17) ID() string { return "C17" }

var c17Points = []int{0, 'a', 0xFF, 0x100, 0x101, 0x2000, 0xFFFE}

func c17Probes() []int {
	seen := map[int]bool{}
	var out []int
	for _, p := range c17Points {
		for _, d := range []int{-1, 0, 1} {
			q := p + d
			if q < 0 || q > 0xFFFE || seen[q] {
				continue
			}
			seen[q] = true
			out = append(out, q)
		}
	}
	return out
}

// c17Pow2 are powers of two and their neighbours: table sizes, index masks and
// "fits in n bytes" limits of any implementation live there.
func c17Pow2() []int {
	var out []int
	for k := 6; k <= 16; k++ {
		for _, d := range []int{-1, 0, 1} {
			if v := (1 << k) + d; v >= 0 && v <= 0xFFFE {
				out = append(out, v)
			}
		}
	}
	return out
}

func c17Endpoint(r *Rand, prev []int) int {
	probes := c17Probes()
	switch r.Weighted([]int{5, 2, 2, 3, 1}) {
	case 4:
		return c17Magic[r.Intn(len(c17Magic))] + r.PickInt([]int{-1, 0, 0, 1})
	case 0:
		return probes[r.Intn(len(probes))]
	case 1:
		p2 := c17Pow2()
		return p2[r.Intn(len(p2))]
	case 2:
		return r.Intn(0xFFFF)
	default:
		// relative to an endpoint used before: adjacent ranges, gaps of one, overlaps by one
		if len(prev) == 0 {
			return probes[r.Intn(len(probes))]
		}
		v := prev[r.Intn(len(prev))] + r.PickInt([]int{-2, -1, 0, 1, 2, 2, 0x40, -0x40, 0x80, 0x100})
		if v < 0 {
			v = 0
		}
		if v > 0xFFFE {
			v = 0xFFFE
		}
		return v
	}
}

func (propC17) Gen(r *Rand) *Plan {
	target := []string{"map", "map", "states", "wordchars", "whitespacechars"}[r.Intn(5)]
	probes := c17Probes()
	nops := r.Range(1, 30*r.Size())
	clearW := r.PickInt([]int{0, 1, 1, 2})
	var ops []Op
	var prev []int
	for i := 0; i < nops; i++ {
		reW := 0
		if target == "states" {
			reW = 2
		}
		switch r.Weighted([]int{10, 2, clearW, 4, reW}) {
		case 4:
			// a registration made by a state while the tokenizer is at work (see "reenter" in Exec)
			ch := c17Endpoint(r, prev)
			prev = append(prev, ch)
			ops = append(ops, Op{Op: "reenter", I: ch, J: r.Range(1, 3), S: r.Pick([]string{"A", "B", "B", "none", "clear"}), S2: r.Pick([]string{"comment", "comment", "unknown"})})
		case 0:
			a, b := c17Endpoint(r, prev), c17Endpoint(r, prev)
			if r.Bool(0.3) {
				b = a
			}
			if a > b {
				a, b = b, a
			}
			prev = append(prev, a, b)
			ops = append(ops, Op{Op: "add", I: a, J: b, S: r.Pick([]string{"A", "B", "A", "B", "none", "C"})})
		case 1:
			ops = append(ops, Op{Op: "adddefault", S: r.Pick([]string{"A", "B", "none"})})
		case 2:
			ops = append(ops, Op{Op: "clear"})
		case 3:
			ops = append(ops, Op{Op: "lookup", I: probes[r.Intn(len(probes))]})
		}
	}
	return &Plan{Scenario: target, Config: map[string]string{"obs": fmt.Sprint(r.ObsStride())}, Tasks: []TaskPlan{{Ops: ops}}}
}

// c17Magic are characters that text-processing code likes to treat specially.
var c17Magic = []int{0xFEFF, 0xFFFD, 0xFFFE, 0x200B, 0x00A0, 0x2028, 0x2029, 0x0085, 0x001A, 0x007F, 0x00AD, 0x3000, 0xE000}

// c17ProbesFor are the characters looked up after operation i: the boundary
// set, the endpoints of the last few registrations with their neighbours, and
// single-bit flips of the latest endpoints (what a direct-mapped cache or an
// index computed from some bits of the character would confuse them with).
func c17ProbesFor(ops []Op, i int) []int {
	seen := map[int]bool{}
	var out []int
	add := func(v int) {
		// surrogate code points cannot travel through a Go string (the word / whitespace
		// targets are observed through a scanner over a string): never probed
		if v >= 0 && v <= 0xFFFE && !(v >= 0xD800 && v <= 0xDFFF) && !seen[v] {
			seen[v] = true
			out = append(out, v)
		}
	}
	for _, p := range c17Probes() {
		add(p)
	}
	n := 0
	for j := i; j >= 0 && n < 6; j-- {
		if ops[j].Op != "add" && ops[j].Op != "reenter" {
			continue
		}
		n++
		ends := []int{ops[j].I, ops[j].J}
		if ops[j].Op == "reenter" {
			ends = []int{ops[j].I}
		}
		for _, e := range ends {
			for _, d := range []int{-2, -1, 0, 1, 2} {
				add(e + d)
			}
			if n <= 2 {
				for b := 0; b < 16; b++ {
					add(e ^ (1 << b))
				}
			}
		}
	}
	if i%4 == 0 {
		for _, p := range c17Pow2() {
			add(p)
		}
	}
	if i%3 == 0 {
		for _, p := range c17Magic {
			add(p)
		}
	}
	return out
}

type c17Reg struct {
	lo, hi int
	ref    string
}

type c17Model struct{ regs []c17Reg }

func (m *c17Model) lookup(ch int) string {
	for i := len(m.regs) - 1; i >= 0; i-- {
		if ch >= m.regs[i].lo && ch <= m.regs[i].hi {
			return m.regs[i].ref
		}
	}
	return "none"
}

func c17Range(ch int) string {
	if ch < 0x100 {
		return "latin"
	}
	return "above"
}

type c17Ref struct{ name string }

func (propC17) Exec(p *Plan, x *Ctx) *Outcome {
	out := NewOutcome()
	if len(p.Tasks) == 0 {
		return out
	}
	ops := p.Tasks[0].Ops
	target := p.Scenario
	probes := c17Probes()
	run := NewRun(0)
	changes := 0
	stride := p.Stride()

	body := func() {
		model := &c17Model{}
		refA, refB := &c17Ref{"A"}, &c17Ref{"B"}
		var mp *utilities.CharReferenceMap
		var tk *generic.GenericTokenizer
		var ws *generic.GenericWordState
		var wh *generic.GenericWhitespaceState
		var stA, stB tokenizers.ITokenizerState
		switch target {
		case "states":
			tk = generic.NewGenericTokenizer()
			tk.ClearCharacterStates()
			stA, stB = &c17Marker{typ: 101}, &c17Marker{typ: 102}
		case "wordchars":
			ws = generic.NewGenericWordState()
			ws.ClearWordChars()
		case "whitespacechars":
			wh = generic.NewGenericWhitespaceState()
			wh.ClearWhitespaceChars()
		default:
			target = "map"
			mp = utilities.NewCharReferenceMap()
		}
		refC := []int{42} // a reference of an uncomparable type (raw map only)
		refName := func(got any) string {
			if sl, ok := got.([]int); ok && len(sl) == 1 && &sl[0] == &refC[0] {
				return "C"
			}
			switch {
			case got == nil:
				return "none"
			case got == any(refA):
				return "A"
			case got == any(refB):
				return "B"
			}
			return fmt.Sprintf("other(%T)", got)
		}
		add := func(lo, hi int, ref string) {
			if lo > hi || lo < 0 || hi > 0xFFFE {
				return
			}
			switch target {
			case "map":
				var v any
				if ref == "A" {
					v = refA
				} else if ref == "B" {
					v = refB
				} else if ref == "C" {
					v = refC
				}
				mp.AddInterval(rune(lo), rune(hi), v)
			case "states":
				if ref == "C" {
					ref = "B"
				}
				var v tokenizers.ITokenizerState
				if ref == "A" {
					v = stA
				} else if ref == "B" {
					v = stB
				}
				tk.SetCharacterState(rune(lo), rune(hi), v)
			case "wordchars":
				if ref == "B" || ref == "C" {
					ref = "A"
				}
				ws.SetWordChars(rune(lo), rune(hi), ref == "A")
			case "whitespacechars":
				if ref == "B" || ref == "C" {
					ref = "A"
				}
				wh.SetWhitespaceChars(rune(lo), rune(hi), ref == "A")
			}
			model.regs = append(model.regs, c17Reg{lo, hi, ref})
			changes++
		}
		// observe returns what the implementation says for ch, in model terms
		observe := func(ch int) string {
			switch target {
			case "map":
				return refName(mp.Lookup(rune(ch)))
			case "states":
				st := tk.GetCharacterState(rune(ch))
				got := fmt.Sprintf("other(%T)", st)
				switch {
				case st == nil:
					got = "none"
				case st == stA:
					got = "A"
				case st == stB:
					got = "B"
				}
				// "a tokenizer hands every character of a configured range to the configured state, and disabling
				// a range really disables it": tokenize the single character (not for NUL..space, which other
				// options of the tokenizer may treat on their own)
				if ch > ' ' && (ch < 0xD800 || ch > 0xDFFF) {
					toks := tk.TokenizeBuffer(string(rune(ch)))
					via := "none"
					if len(toks) > 0 && toks[0] != nil {
						switch toks[0].Type() {
						case 101:
							via = "A"
						case 102:
							via = "B"
						case tokenizers.Unknown:
							via = "none"
						default:
							via = fmt.Sprintf("other(type %d)", toks[0].Type())
						}
						if toks[0].Type() != tokenizers.Eof && toks[0].Value() != string(rune(ch)) {
							via = fmt.Sprintf("other(value %q)", toks[0].Value())
						}
						if toks[0].Type() == tokenizers.Eof {
							via = "other(no token for the character)"
						}
					} else {
						via = "other(no token for the character)"
					}
					if via != got {
						return "other(tokenizing gives " + via + ", GetCharacterState " + got + ")"
					}
				}
				return got
			case "wordchars", "whitespacechars":
				// one enabled character followed by a character that the model
				// says nothing about would not isolate ch: read a token from the
				// single-character input and see whether ch was taken
				sc := sio.NewStringScanner(string(rune(ch)))
				var tok *tokenizers.Token
				if target == "wordchars" {
					tok = ws.NextToken(sc, nil)
				} else {
					tok = wh.NextToken(sc, nil)
				}
				if tok.Value() == string(rune(ch)) {
					return "A"
				}
				if tok.Value() == "" {
					return "none"
				}
				return fmt.Sprintf("other(%q)", tok.Value())
			}
			return "?"
		}
		checkAll := func(i int, op string) {
			for _, ch := range c17ProbesFor(ops, i) {
				want := model.lookup(ch)
				got := observe(ch)
				if got != want {
					gk := got
					if len(gk) > 5 && gk[:5] == "other" {
						gk = "other"
					}
					out.Violate("latest-registration", fmt.Sprintf("C17/lookup/%s/%s/want-%s/got-%s", target, c17Range(ch), wantKind(want), wantKind(gk)),
						"after op %d (%s) on %s: lookup of U+%04X gives %s, the latest covering registration is %s", i, op, target, ch, got, want)
					return
				}
			}
		}
		decoy := utilities.NewCharReferenceMap()
		for i, o := range ops {
			run.ResetOpSteps()
			// a second map alive at the same time, registered and looked up differently:
			// maps must not share registrations or lookup state
			decoy.AddInterval(rune((i*37)%0x3000), rune((i*37)%0x3000+i%0x500), refB)
			decoy.Lookup(rune((i * 131) % 0xF000))
			switch o.Op {
			case "add":
				add(o.I, o.J, o.S)
				if o.J >= 0x100 && o.I < 0x100 {
					out.Probes["range_spans_boundary"]++
				}
				if o.S == "none" && o.J >= 0x100 {
					out.Probes["unregister_above_0x100"]++
				}
			case "adddefault":
				if target == "map" {
					var v any
					if o.S == "A" {
						v = refA
					} else if o.S == "B" {
						v = refB
					}
					mp.AddDefaultInterval(v)
					model.regs = append(model.regs, c17Reg{0, 0xFFFE, o.S})
					changes++
				} else {
					add(0, 0xFFFE, o.S)
				}
			case "clear":
				switch target {
				case "map":
					mp.Clear()
				case "states":
					tk.ClearCharacterStates()
				case "wordchars":
					ws.ClearWordChars()
				case "whitespacechars":
					wh.ClearWhitespaceChars()
				}
				model.regs = nil
				changes++
			case "reenter":
				// "disabling a range really disables it", also when the registration is made while the tokenizer is
				// at work: the character o.I is given to a state that, when entered, registers o.I anew (o.S: state A,
				// state B, none, or clears all states) on its own tokenizer and returns a token the tokenizer skips
				// (a comment with SkipComments on; an unknown token with SkipUnknown on). In the input of 1+o.J such
				// characters the first goes to that state; every later one must go where the registration made
				// meanwhile says.
				ch := o.I
				if target != "states" || ch <= ' ' || ch > 0xFFFE || (ch >= 0xD800 && ch <= 0xDFFF) || o.J < 1 || o.J > 8 {
					continue
				}
				to, skip := o.S, o.S2
				if skip == "unknown" && to != "A" && to != "B" {
					to = "B" // with unknown tokens skipped, an unregistered character leaves nothing to look at
				}
				entered := 0
				sw := &c17Switch{do: func() int {
					entered++
					switch to {
					case "A":
						tk.SetCharacterState(rune(ch), rune(ch), stA)
					case "B":
						tk.SetCharacterState(rune(ch), rune(ch), stB)
					case "clear":
						tk.ClearCharacterStates()
					default:
						tk.SetCharacterState(rune(ch), rune(ch), nil)
					}
					if skip == "unknown" {
						return tokenizers.Unknown
					}
					return tokenizers.Comment
				}}
				tk.SetCharacterState(rune(ch), rune(ch), sw)
				tk.SetSkipComments(skip != "unknown")
				tk.SetSkipUnknown(skip == "unknown")
				text := ""
				for k := 0; k <= o.J; k++ {
					text += string(rune(ch))
				}
				toks := tk.TokenizeBuffer(text)
				tk.SetSkipComments(false)
				tk.SetSkipUnknown(false)
				if to == "clear" {
					model.regs = nil
				} else {
					model.regs = append(model.regs, c17Reg{ch, ch, "SW"}, c17Reg{ch, ch, to})
				}
				changes++
				wantType := map[string]int{"A": 101, "B": 102}[model.lookup(ch)]
				if wantType == 0 {
					wantType = tokenizers.Unknown
				}
				var got []string
				ok := entered == 1
				n := 0
				for _, t := range toks {
					if t == nil || t.Type() == tokenizers.Eof {
						continue
					}
					got = append(got, fmt.Sprintf("%d:%q", t.Type(), t.Value()))
					if t.Type() != wantType || t.Value() != string(rune(ch)) {
						ok = false
					}
					n++
				}
				if n != o.J {
					ok = false
				}
				out.Probes["registration_made_while_tokenizing"]++
				if !ok {
					out.Violate("latest-registration", "C17/registered-while-tokenizing/"+skip+"/"+wantKind(to),
						"op %d: U+%04X is registered for a state that, when entered, registers it anew (%s) and returns a skipped %s token; tokenizing %d such characters entered that state %d times and gave tokens %v, the registration made meanwhile says %d tokens of type %d",
						i, ch, to, skip, o.J+1, entered, got, o.J, wantType)
					return
				}
			case "lookup":
				// explicit lookups are covered by checkAll; kept as history steps
			default:
				continue
			}
			st := NewHasher()
			for _, ch := range probes {
				st.Str(model.lookup(ch))
			}
			out.ModelStates = append(out.ModelStates, st.Str(target).Sum())
			out.Event("%s %d %d %s", o.Op, o.I, o.J, o.S)
			if !Observe(stride, i, len(ops)) {
				continue // sparse observation: several registrations in a row without any lookup in between
			}
			checkAll(i, o.Op)
			if len(out.Violations) > 0 {
				return
			}
		}
		if target == "wordchars" && len(out.Violations) == 0 {
			// a disabled range really splits words: token over several probe characters
			text := []rune{}
			for _, ch := range probes {
				text = append(text, rune(ch))
			}
			want := ""
			for _, ch := range probes {
				if model.lookup(ch) == "none" {
					break
				}
				want += string(rune(ch))
			}
			sc := sio.NewStringScanner(string(text))
			tok := ws.NextToken(sc, nil)
			if tok.Value() != want {
				out.Violate("latest-registration", "C17/word-split", "word over the probe characters is %q, the model says %q", tok.Value(), want)
			}
			out.Probes["word_split_checked"]++
		}
	}
	t := run.AddTask(body)
	run.Schedule(&ReplayChooser{})
	if t.PanicVal != nil {
		if sb, ok := t.PanicVal.(StepBudgetExceeded); ok {
			out.Violate("liveness", "C17/step-budget", "%v", sb)
		} else {
			out.Violate("no-panic", "C17/panic/"+target, "operation panicked: %v", t.PanicVal)
		}
	}
	out.Steps = run.Steps()
	out.Nontrivial = len(ops) >= 3 && changes >= 2
	out.CaseSig = HashJSON(struct {
		S string
		O []Op
	}{p.Scenario, ops})
	return out
}

func wantKind(s string) string {
	if s == "A" || s == "B" || s == "C" {
		return "ref"
	}
	return s
}

// c17Switch is a tokenizer state that consumes one character, does something to its tokenizer
// and returns a token of the type that action names.
type c17Switch struct{ do func() int }

func (m *c17Switch) NextToken(scanner sio.IScanner, tokenizer tokenizers.ITokenizer) *tokenizers.Token {
	ch := scanner.Read()
	return tokenizers.NewToken(m.do(), string(ch), scanner.Line(), scanner.Column())
}

// c17Marker is a tokenizer state that consumes one character and labels it.
type c17Marker struct{ typ int }

func (m *c17Marker) NextToken(scanner sio.IScanner, tokenizer tokenizers.ITokenizer) *tokenizers.Token {
	ch := scanner.Read()
	return tokenizers.NewToken(m.typ, string(ch), scanner.Line(), scanner.Column())
}
