package sim

import (
	"fmt"
	"strings"
	"time"
)

// Typed generator of calculator expressions and of mustache templates. The
// generator knows the role of every identifier it emits (variable, function,
// keyword, string constant, section word), which C18 needs, and produces
// mostly well-typed expressions so that evaluations do real work.

type ExprGen struct {
	R       *Rand
	Vars    map[string]string // variable name (as first written) -> type
	VarSeq  []string          // variable names in order of first occurrence (exact spelling of the first occurrence)
	Funcs   []string          // function names used
	Strings []string          // string constants used
	MaxVars int
	NoCase  bool // do not vary letter case of identifiers
	Mixed   bool // allow operands of mismatching types
	nodes   int
	Budget  int
}

var exprVarPool = []string{"a", "b", "c", "d", "e", "x1", "_v", "Total", "n9", "ts", "dt"}
var exprTypes = []string{"int", "int", "int", "float", "str", "bool"}

func NewExprGen(r *Rand) *ExprGen {
	return &ExprGen{R: r, Vars: map[string]string{}, MaxVars: 5, Budget: 15 + 10*Scale}
}

func (g *ExprGen) varOf(typ string) string {
	// existing variable of that type?
	var have []string
	for _, n := range g.VarSeq {
		if g.Vars[strings.ToUpper(n)] == typ {
			have = append(have, n)
		}
	}
	if len(have) > 0 && (len(g.VarSeq) >= g.MaxVars || g.R.Bool(0.6)) {
		n := have[g.R.Intn(len(have))]
		if !g.NoCase && g.R.Bool(0.25) {
			return flipCase(g.R, n)
		}
		return n
	}
	if len(g.VarSeq) >= g.MaxVars {
		return ""
	}
	for try := 0; try < 10; try++ {
		n := exprVarPool[g.R.Intn(len(exprVarPool))]
		if _, ok := g.Vars[strings.ToUpper(n)]; ok {
			continue
		}
		g.Vars[strings.ToUpper(n)] = typ
		g.VarSeq = append(g.VarSeq, n)
		return n
	}
	return ""
}

func flipCase(r *Rand, s string) string {
	b := []byte(s)
	for i := range b {
		if r.Bool(0.5) {
			if b[i] >= 'a' && b[i] <= 'z' {
				b[i] -= 32
			} else if b[i] >= 'A' && b[i] <= 'Z' {
				b[i] += 32
			}
		}
	}
	return string(b)
}

func (g *ExprGen) fn(name string) string {
	g.Funcs = append(g.Funcs, name)
	if !g.NoCase && g.R.Bool(0.3) {
		return flipCase(g.R, name)
	}
	return name
}

func (g *ExprGen) kw(name string) string {
	if !g.NoCase && g.R.Bool(0.3) {
		return flipCase(g.R, name)
	}
	return name
}

func (g *ExprGen) sp() string {
	switch g.R.Intn(12) {
	case 0:
		return "  "
	case 1:
		return " /* c */ "
	case 2:
		return "\t"
	}
	return " "
}

func (g *ExprGen) intLit() string {
	return fmt.Sprint(g.R.PickInt([]int{0, 1, 2, 3, 4, 5, 7, 10, 12, 100}))
}

func (g *ExprGen) strLit() string {
	s := g.R.Pick([]string{"", "a", "ab", "abc", "b", "hello", "x y", "it''s", "Ab"})
	g.Strings = append(g.Strings, strings.ReplaceAll(s, "''", "'"))
	return "'" + s + "'"
}

// Gen produces an expression of the wanted type: int, float, str, bool, arr.
func (g *ExprGen) Gen(typ string, depth int) string {
	g.nodes++
	leaf := depth <= 0 || g.nodes > g.Budget
	switch typ {
	case "int":
		if leaf {
			if g.R.Bool(0.5) {
				if v := g.varOf("int"); v != "" {
					return v
				}
			}
			return g.intLit()
		}
		switch g.R.Intn(14) {
		case 0, 1:
			return g.bin("int", "+", depth)
		case 2:
			return g.bin("int", "-", depth)
		case 3:
			return g.bin("int", "*", depth)
		case 4:
			return "(" + g.Gen("int", depth-1) + g.sp() + g.R.Pick([]string{"/", "%"}) + g.sp() + g.R.Pick([]string{"1", "2", "3", "7"}) + ")"
		case 5:
			return "-" + g.paren(g.Gen("int", depth-1))
		case 6:
			return g.fn(g.R.Pick([]string{"Min", "Max", "Sum"})) + "(" + g.args("int", g.R.Range(2, 4), depth-1) + ")"
		case 7:
			return g.fn("If") + "(" + g.Gen("bool", depth-1) + "," + g.sp() + g.Gen("int", depth-1) + "," + g.Gen("int", depth-1) + ")"
		case 8:
			return g.fn("Abs") + "(" + g.Gen("int", depth-1) + ")"
		case 9:
			n := g.R.Range(2, 4)
			return g.fn("Array") + "(" + g.args("int", n, depth-1) + ")[" + fmt.Sprint(g.R.Intn(n)) + "]"
		case 10:
			return "(" + g.Gen("int", depth-1) + g.sp() + g.R.Pick([]string{"<<", ">>"}) + g.sp() + g.R.Pick([]string{"0", "1", "2", "3"}) + ")"
		case 11:
			n := g.R.Range(2, 4)
			sel := fmt.Sprint(g.R.Range(1, n))
			if g.R.Bool(0.15) {
				sel = g.R.Pick([]string{"-1", "9", "0 - 2"}) // a selector out of range: the function fails (a recovered runtime panic or an error)
			}
			return g.fn("Choose") + "(" + sel + "," + g.args("int", n, depth-1) + ")"
		case 12:
			return "(" + g.Gen("int", depth-1) + g.sp() + g.kw(g.R.Pick([]string{"AND", "OR", "XOR"})) + g.sp() + g.Gen("int", depth-1) + ")"
		default:
			return "(" + g.Gen("int", depth-1) + ")"
		}
	case "float":
		if leaf {
			if g.R.Bool(0.5) {
				if v := g.varOf("float"); v != "" {
					return v
				}
			}
			return g.R.Pick([]string{"1.5", "0.25", "2.0", "10.75", "3.5e1"})
		}
		switch g.R.Intn(5) {
		case 0:
			return g.bin("float", "+", depth)
		case 1:
			return g.bin("float", "*", depth)
		case 2:
			return g.fn(g.R.Pick([]string{"Sqrt", "Abs", "Floor", "Ceil", "Round", "Exp", "Sin", "Cos", "Log10"})) + "(" + g.Gen("float", depth-1) + ")"
		case 3:
			return g.bin("float", "/", depth)
		default:
			return g.fn("If") + "(" + g.Gen("bool", depth-1) + "," + g.Gen("float", depth-1) + "," + g.Gen("float", depth-1) + ")"
		}
	case "str":
		if leaf {
			if g.R.Bool(0.5) {
				if v := g.varOf("str"); v != "" {
					return v
				}
			}
			return g.strLit()
		}
		switch g.R.Intn(3) {
		case 0:
			return g.bin("str", "+", depth)
		case 1:
			return g.fn("If") + "(" + g.Gen("bool", depth-1) + "," + g.Gen("str", depth-1) + "," + g.Gen("str", depth-1) + ")"
		default:
			g.Strings = append(g.Strings, "abc")
			return "'abc'[" + fmt.Sprint(g.R.Intn(3)) + "]"
		}
	case "bool":
		if leaf {
			if g.R.Bool(0.4) {
				if v := g.varOf("bool"); v != "" {
					return v
				}
			}
			return g.kw(g.R.Pick([]string{"TRUE", "FALSE"}))
		}
		switch g.R.Intn(12) {
		case 11:
			// clock and random functions in positions where the result does not depend on their value
			return g.R.Pick([]string{"(" + g.fn("Rnd") + "() < 2)", "(" + g.fn("Random") + "() >= 0)", "(" + g.fn("Ticks") + "() > 0)",
				"(" + g.fn("Now") + "() > " + g.fn("Date") + "(2001, 2, 3))", "(" + g.fn("Rnd") + "() > 5)"})
		case 0, 1:
			t := g.R.Pick([]string{"int", "int", "float", "str", "long", "span", "date"})
			return "(" + g.Gen(t, depth-1) + g.sp() + g.R.Pick([]string{"=", "<>", "!=", ">", "<", ">=", "<="}) + g.sp() + g.Gen(t, depth-1) + ")"
		case 2:
			return "(" + g.Gen("bool", depth-1) + g.sp() + g.kw(g.R.Pick([]string{"AND", "OR", "XOR"})) + g.sp() + g.Gen("bool", depth-1) + ")"
		case 3:
			return g.kw("NOT") + g.sp() + g.paren(g.Gen("bool", depth-1))
		case 4:
			// the left operand of IN / IS NULL is kept a leaf: the parser mis-reads these
			// operators after a closing parenthesis (a C02 matter, not decided here)
			return "(" + g.Gen("int", 0) + g.sp() + g.kw("IN") + g.sp() + g.fn("Array") + "(" + g.args("int", g.R.Range(1, 4), depth-1) + "))"
		case 5:
			return "(" + g.Gen("int", 0) + g.sp() + g.kw("NOT") + " " + g.kw("IN") + g.sp() + g.fn("Array") + "(" + g.args("int", g.R.Range(1, 4), depth-1) + "))"
		case 6:
			t := g.R.Pick([]string{"int", "str"})
			return "(" + g.Gen(t, 0) + g.sp() + g.kw("IS") + " " + g.kw("NULL") + ")"
		case 7:
			t := g.R.Pick([]string{"int", "str"})
			return "(" + g.Gen(t, 0) + g.sp() + g.kw("IS") + " " + g.kw("NOT") + " " + g.kw("NULL") + ")"
		case 8:
			return g.fn("Contains") + "(" + g.Gen("str", depth-1) + "," + g.sp() + g.Gen("str", depth-1) + ")"
		case 9:
			return g.fn("Empty") + "(" + g.Gen(g.R.Pick([]string{"int", "str"}), depth-1) + ")"
		default:
			return "(" + g.Gen("bool", depth-1) + ")"
		}
	case "arr":
		return g.fn("Array") + "(" + g.args(g.R.Pick([]string{"int", "str", "bool"}), g.R.Range(0, 4), depth-1) + ")"
	case "long":
		// Long values exist only as variables
		if leaf || g.R.Bool(0.4) {
			if v := g.varOf("long"); v != "" {
				return v
			}
			return g.intLit()
		}
		switch g.R.Intn(4) {
		case 0:
			return g.bin("long", g.R.Pick([]string{"+", "-", "*"}), depth)
		case 1:
			return "(" + g.Gen("long", depth-1) + g.sp() + g.R.Pick([]string{"/", "%"}) + g.sp() + g.R.Pick([]string{"1", "3", "7"}) + ")"
		case 2:
			return "(" + g.Gen("long", depth-1) + g.sp() + g.R.Pick([]string{"<<", ">>"}) + " " + g.R.Pick([]string{"0", "1", "5"}) + ")"
		default:
			return "(" + g.Gen("long", depth-1) + g.sp() + g.kw(g.R.Pick([]string{"AND", "OR", "XOR"})) + g.sp() + g.Gen("int", depth-1) + ")"
		}
	case "span":
		if leaf || g.R.Bool(0.4) {
			if v := g.varOf("span"); v != "" {
				return v
			}
			return g.fn("TimeSpan") + "(" + g.R.Pick([]string{"1000", "1, 2, 3", "0, 0, 0, 5, 250"}) + ")"
		}
		switch g.R.Intn(3) {
		case 0:
			return g.bin("span", g.R.Pick([]string{"+", "-"}), depth)
		case 1:
			return "(" + g.Gen("date", depth-1) + g.sp() + "-" + g.sp() + g.Gen("date", depth-1) + ")"
		default:
			return g.fn("If") + "(" + g.Gen("bool", depth-1) + "," + g.Gen("span", depth-1) + "," + g.Gen("span", depth-1) + ")"
		}
	case "date":
		if g.R.Bool(0.6) {
			if v := g.varOf("date"); v != "" {
				return v
			}
		}
		return g.fn("Date") + "(" + fmt.Sprint(g.R.Range(1990, 2030)) + ", " + fmt.Sprint(g.R.Range(1, 12)) + ", " + fmt.Sprint(g.R.Range(1, 28)) + ")"
	}
	return g.intLit()
}

// mismatch occasionally replaces an operand by one of another type, so that the
// conversions of the operations manager (or its refusal) are exercised too.
func (g *ExprGen) mismatch(typ string) string {
	if g.Mixed && g.R.Bool(0.12) {
		return g.R.Pick([]string{"int", "float", "str", "bool", "long"})
	}
	return typ
}

func (g *ExprGen) paren(s string) string { return "(" + s + ")" }

func (g *ExprGen) bin(typ, op string, depth int) string {
	return "(" + g.Gen(typ, depth-1) + g.sp() + op + g.sp() + g.Gen(g.mismatch(typ), depth-1) + ")"
}

func (g *ExprGen) args(typ string, n int, depth int) string {
	parts := make([]string, n)
	for i := range parts {
		parts[i] = g.Gen(typ, depth)
	}
	return strings.Join(parts, ","+g.sp())
}

// Top generates a complete expression; minimal parenthesisation is not
// attempted (C01 is not claimed), everything composite is parenthesised.
func (g *ExprGen) Top() string {
	typ := g.R.Pick([]string{"int", "int", "bool", "bool", "float", "str", "arr", "long", "span"})
	return g.Gen(typ, g.R.Range(1, 3+Scale))
}

var strTwins = []string{"1h", "1H", "90m", "90M", "2020-01-02T03:04:05Z", "2020-01-02t03:04:05z", "1e2", "1E2", "true", "TRUE", "True",
	"0x1f", "0X1F", "inf", "Inf", "nan", "NaN", "1.5", "12", " 12", "12 "}

// ValueOf draws a value for a variable of the given generator type.
func GenValue(r *Rand, typ string) Val {
	if r.Bool(0.06) {
		return VNull()
	}
	switch typ {
	case "int":
		if r.Bool(0.15) {
			return VLong(int64(r.Range(-5, 50)))
		}
		return VInt(r.Range(-5, 50))
	case "float":
		if r.Bool(0.3) {
			return VDouble(float64(r.Range(-40, 400)) / 8)
		}
		return VFloat(float32(r.Range(-40, 400)) / 8)
	case "str":
		if r.Bool(0.2) {
			// texts that convert to other types, in two letter cases: the converters are case sensitive
			// for some target types and not for others ("1h" is an hour, "1H" is not a time span)
			return VStr(r.Pick(strTwins))
		}
		return VStr(r.Pick([]string{"", "a", "ab", "abc", "hello", "Ab", "x y"}))
	case "bool":
		return VBool(r.Bool(0.5))
	case "long":
		return VLong(int64(r.Range(-9, 1000)) * int64(r.PickInt([]int{1, 1, 1 << 20, 1 << 33})))
	case "span":
		return VSpan(time.Duration(r.Range(-5000, 500000)) * time.Millisecond)
	case "date":
		return VTime(time.Unix(int64(r.Range(0, 2_000_000_000)), 0).UTC())
	}
	return VNull()
}

// GenVarSet draws values for all variables of an expression. The special entry
// "#order" fixes the layout of the collection built from the set: the names in
// a seeded order, sometimes with unused extra variables in between and with a
// second entry that differs from an earlier one by letter case only (the first
// one added wins, so it never changes the result).
func (g *ExprGen) GenVarSet(r *Rand) VarSet {
	vs := VarSet{}
	for _, n := range g.VarSeq {
		vs[n] = GenValue(r, g.Vars[strings.ToUpper(n)])
	}
	if len(g.VarSeq) > 1 && r.Bool(0.08) {
		// one variable is missing from this set: its evaluations take the error path
		delete(vs, g.VarSeq[r.Intn(len(g.VarSeq))])
	}
	if len(g.VarSeq) > 0 && r.Bool(0.6) {
		order := append([]string{}, g.VarSeq...)
		r.Shuffle(len(order), func(i, j int) { order[i], order[j] = order[j], order[i] })
		var out []string
		for _, n := range order {
			if r.Bool(0.25) {
				out = append(out, fmt.Sprintf("unused%d", r.Intn(4)))
			}
			if _, ok := vs[n]; !ok {
				continue
			}
			out = append(out, n)
			if r.Bool(0.2) {
				dup := flipCase(r, n)
				if dup == n {
					dup = strings.ToUpper(n)
				}
				if dup != n {
					out = append(out, dup) // added later: must lose against n
				}
			}
		}
		vs["#order"] = VStr(strings.Join(out, ","))
	}
	return vs
}

// ---- mustache templates ----------------------------------------------------

type TmplGen struct {
	R      *Rand
	VarSeq []string // variable names in order of first occurrence, first spelling
	seen   map[string]bool
	NoCase bool
}

var tmplVarPool = []string{"name", "a", "b", "Title", "x_1", "user", "ITEM"}

func NewTmplGen(r *Rand) *TmplGen { return &TmplGen{R: r, seen: map[string]bool{}} }

func (g *TmplGen) v() string {
	n := tmplVarPool[g.R.Intn(len(tmplVarPool))]
	if !g.seen[strings.ToLower(n)] {
		g.seen[strings.ToLower(n)] = true
		g.VarSeq = append(g.VarSeq, n)
		return n
	}
	// reuse, possibly in another letter case
	for _, f := range g.VarSeq {
		if strings.EqualFold(f, n) {
			n = f
		}
	}
	if !g.NoCase && g.R.Bool(0.3) {
		return flipCase(g.R, n)
	}
	return n
}

func (g *TmplGen) text() string {
	return g.R.Pick([]string{"Hello ", ", ", "!", " text with { brace ", "line\n", "if", " unless ", "é ", "  ", "'q'", "\"dq\" "})
}

func (g *TmplGen) ws() string {
	if g.R.Bool(0.3) {
		return " "
	}
	return ""
}

func (g *TmplGen) Gen(depth int) string {
	var sb strings.Builder
	n := g.R.Range(1, 5)
	for i := 0; i < n; i++ {
		switch g.R.Intn(8) {
		case 0, 1:
			sb.WriteString(g.text())
		case 2, 3:
			sb.WriteString("{{" + g.ws() + g.v() + g.ws() + "}}")
		case 4:
			sb.WriteString("{{{" + g.ws() + g.v() + g.ws() + "}}}")
		case 5:
			if depth > 0 {
				name := g.v()
				open := g.R.Pick([]string{"#", "^", "#if ", "#unless "})
				closeName := name
				if strings.HasPrefix(open, "#if") || strings.HasPrefix(open, "#unless") {
					closeName = ""
					if strings.HasPrefix(open, "#if") {
						closeName = "if"
					} else if strings.HasPrefix(open, "#unless") {
						closeName = "unless"
					}
				}
				sb.WriteString("{{" + open + name + "}}" + g.Gen(depth-1) + "{{/" + closeName + "}}")
			} else {
				sb.WriteString(g.text())
			}
		case 6:
			if g.R.Bool(0.1) {
				// comment tags are rejected by this implementation ("Internal error"): rare on purpose
				sb.WriteString("{{! a comment " + g.R.Pick([]string{"", "name", "x"}) + " }}")
			} else {
				sb.WriteString(g.text())
			}
		default:
			sb.WriteString(g.text())
		}
	}
	return sb.String()
}

func (g *TmplGen) GenVars(r *Rand) map[string]string {
	m := map[string]string{}
	for _, n := range g.VarSeq {
		if r.Bool(0.15) {
			continue // undefined
		}
		m[n] = r.Pick([]string{"", "v", "World", "a \"q\" / b\n", "1", "t\t" + fmt.Sprint(r.Intn(1<<30)), "w" + fmt.Sprint(r.Intn(1000))})
	}
	return m
}
