package sim

import (
	rt "github.com/pip-services3-gox/pip-services3-expressions-gox/verifsimrt"
)

// NULL – the null workload of the harness self-test: tasks that never call the
// library but pass through everything the harness does inside a task (yield
// hook, parking, step budget reset, task-private result slots, panic
// recovery). Under the race build a batch of these must end with zero reports:
// whatever the race detector says about a library workload is then not the
// harness talking about itself.

type propNull struct{}

func init() { Register(propNull{}) }

func (propNull) ID() string { return "NULL" }

func (propNull) Gen(r *Rand) *Plan {
	p := &Plan{}
	for t, n := 0, r.Range(2, 4); t < n; t++ {
		tp := TaskPlan{}
		for i, k := 0, r.Range(1, 4); i < k; i++ {
			tp.Ops = append(tp.Ops, Op{Op: "spin", I: r.Range(1, 300)})
		}
		p.Tasks = append(p.Tasks, tp)
	}
	p.Policy = Policies[r.Intn(len(Policies)-1)]
	return p
}

func (propNull) Exec(p *Plan, x *Ctx) *Outcome {
	out := NewOutcome()
	run := NewRun(0)
	slots := make([][]int, len(p.Tasks))
	for t := range p.Tasks {
		t := t
		tp := p.Tasks[t]
		slots[t] = make([]int, len(tp.Ops))
		run.AddTask(func() {
			for i, o := range tp.Ops {
				run.ResetOpSteps()
				acc := 0
				func() {
					defer func() { _ = recover() }()
					for k := 0; k < o.I; k++ {
						rt.Y(0)
						acc += k
					}
					if o.I%7 == 0 {
						panic("task-local panic")
					}
				}()
				slots[t][i] = acc
			}
		})
	}
	var ch Chooser
	if x.Replay || len(p.Schedule) > 0 || x.R == nil {
		ch = &ReplayChooser{Sched: p.Schedule}
	} else {
		ch = NewPolicyChooser(x.R, p.Policy, len(p.Tasks), false)
	}
	if p.Cfg("coarse", "") == "on" {
		run.SetCoarse(true)
	}
	run.Schedule(ch)
	for t := range slots {
		for i, v := range slots[t] {
			n := p.Tasks[t].Ops[i].I
			if v != n*(n-1)/2 {
				out.Violate("null", "NULL/slot", "task %d op %d: slot holds %d", t, i, v)
			}
		}
	}
	out.Steps = run.Steps()
	out.Switches = run.Switches()
	out.SchedSig = ScheduleSig(run.Executed)
	out.Nontrivial = out.Switches > 0
	out.CaseSig = out.SchedSig
	for _, e := range run.Executed {
		out.Sched.Int(int64(e.Task)).Int(e.Quantum)
	}
	return out
}
