package sim

import (
	"path/filepath"
	"regexp"
	"strings"
	"time"
)

func filepathGlob(p string) ([]string, error) { return filepath.Glob(p) }

// Minimise is delta debugging over a plan: it keeps a candidate iff test
// reports the same violation class. Executors skip operations they cannot
// make sense of, so any sub-plan is executable.
type minimiseDeadline struct{}

func Minimise(orig *Plan, test func(*Plan) bool, deadline time.Time) (best *Plan) {
	cur := orig.Clone()
	// past the deadline the passes are abandoned at once (not merely answered "no": a pass over a
	// schedule of 100 000 entries would still clone the plan once per entry); what was reached so far stands
	defer func() {
		if pv := recover(); pv != nil {
			if _, ok := pv.(minimiseDeadline); !ok {
				panic(pv)
			}
			best = cur
		}
	}()
	try := func(c *Plan) bool {
		if time.Now().After(deadline) {
			panic(minimiseDeadline{})
		}
		if test(c) {
			cur = c
			return true
		}
		return false
	}
	minimisePrelude(&cur, try)
	for round := 0; round < 8; round++ {
		before := planSize(cur)
		minimiseTasks(&cur, try)
		minimiseOps(&cur, try)
		minimiseFaults(&cur, try)
		minimiseSchedule(&cur, try)
		minimiseStrings(&cur, try)
		minimiseInts(&cur, try)
		minimiseValues(&cur, try)
		if planSize(cur) >= before || time.Now().After(deadline) {
			break
		}
	}
	return cur
}

// minimisePrelude drops earlier runs that are not needed to reproduce.
func minimisePrelude(cur **Plan, try func(*Plan) bool) {
	if len((*cur).Prelude) == 0 {
		return
	}
	c := (*cur).Clone()
	c.Prelude = nil
	if try(c) {
		return
	}
	for chunk := len((*cur).Prelude); chunk >= 1; chunk /= 2 {
		for start := 0; start < len((*cur).Prelude); {
			c := (*cur).Clone()
			end := start + chunk
			if end > len(c.Prelude) {
				end = len(c.Prelude)
			}
			c.Prelude = append(append([]*Plan{}, c.Prelude[:start]...), c.Prelude[end:]...)
			if !try(c) {
				start += chunk
			}
		}
	}
	// shrink what is left of each prelude run like a plan of its own
	for i := range (*cur).Prelude {
		i := i
		s := (*cur).Prelude[i].Clone()
		subTry := func(q *Plan) bool {
			c := (*cur).Clone()
			c.Prelude[i] = q
			if try(c) {
				s = q
				return true
			}
			return false
		}
		minimiseTasks(&s, subTry)
		minimiseOps(&s, subTry)
		minimiseSchedule(&s, subTry)
	}
}

func planSize(p *Plan) int {
	n := 10*p.NumOps() + 3*len(p.Schedule)
	for _, q := range p.Prelude {
		n += 50 + planSize(q)
	}
	for _, t := range p.Tasks {
		n += len(t.Text)
		for _, s := range t.Sets {
			n += len(s)
		}
		for _, o := range t.Ops {
			n += opSize(o)
		}
	}
	for _, o := range p.Setup {
		n += opSize(o)
	}
	return n
}

func opSize(o Op) int {
	n := len(o.S) + len(o.S2) + len(o.Vs) + len(o.Ss) + abs(o.I) + abs(o.J)
	if o.F != nil {
		n += 5
	}
	return n
}

func abs(x int) int {
	if x < 0 {
		return -x
	}
	return x
}

func minimiseTasks(cur **Plan, try func(*Plan) bool) {
	for i := len((*cur).Tasks) - 1; i >= 0 && len((*cur).Tasks) > 1; i-- {
		c := (*cur).Clone()
		c.Tasks = append(c.Tasks[:i], c.Tasks[i+1:]...)
		var s []SchedEntry
		for _, e := range c.Schedule {
			if e.Task == i {
				continue
			}
			if e.Task > i {
				e.Task--
			}
			s = append(s, e)
		}
		c.Schedule = s
		try(c)
	}
}

// ddminOps removes chunks of an op list.
func ddminOps(get func(*Plan) *[]Op, cur **Plan, try func(*Plan) bool) {
	n := len(*get(*cur))
	for chunk := n; chunk >= 1; chunk /= 2 {
		for start := 0; start < len(*get(*cur)); {
			c := (*cur).Clone()
			l := get(c)
			end := start + chunk
			if end > len(*l) {
				end = len(*l)
			}
			if start >= end {
				break
			}
			*l = append(append([]Op{}, (*l)[:start]...), (*l)[end:]...)
			if !try(c) {
				start += chunk
			}
		}
	}
}

func minimiseOps(cur **Plan, try func(*Plan) bool) {
	ddminOps(func(p *Plan) *[]Op { return &p.Setup }, cur, try)
	for ti := range (*cur).Tasks {
		ti := ti
		ddminOps(func(p *Plan) *[]Op { return &p.Tasks[ti].Ops }, cur, try)
	}
}

func eachOp(p *Plan, f func(o *Op)) {
	for i := range p.Setup {
		f(&p.Setup[i])
	}
	for ti := range p.Tasks {
		for i := range p.Tasks[ti].Ops {
			f(&p.Tasks[ti].Ops[i])
		}
	}
}

func countOps(p *Plan) int { return p.NumOps() }

// forOp applies edit to the k-th op (in eachOp order) of a clone and tries it.
func forOp(cur **Plan, k int, edit func(o *Op) bool, try func(*Plan) bool) bool {
	c := (*cur).Clone()
	i := 0
	changed := false
	eachOp(c, func(o *Op) {
		if i == k {
			changed = edit(o)
		}
		i++
	})
	if !changed {
		return false
	}
	return try(c)
}

func minimiseFaults(cur **Plan, try func(*Plan) bool) {
	for k := 0; k < countOps(*cur); k++ {
		forOp(cur, k, func(o *Op) bool {
			if o.F == nil {
				return false
			}
			o.F = nil
			return true
		}, try)
	}
}

func minimiseSchedule(cur **Plan, try func(*Plan) bool) {
	if len((*cur).Schedule) == 0 {
		return
	}
	// no schedule at all (tasks run one after the other)
	c := (*cur).Clone()
	c.Schedule = nil
	if try(c) {
		return
	}
	// shortest prefix
	for n := 1; n < len((*cur).Schedule); n *= 2 {
		c := (*cur).Clone()
		c.Schedule = c.Schedule[:n]
		if try(c) {
			break
		}
	}
	// drop clock jumps
	for i := range (*cur).Schedule {
		if (*cur).Schedule[i].JumpNs != 0 {
			c := (*cur).Clone()
			c.Schedule[i].JumpNs = 0
			try(c)
		}
	}
	// merge neighbours / drop entries
	for i := len((*cur).Schedule) - 1; i >= 0; i-- {
		if i >= len((*cur).Schedule) {
			continue
		}
		c := (*cur).Clone()
		if i+1 < len(c.Schedule) && c.Schedule[i].Task == c.Schedule[i+1].Task {
			c.Schedule[i].Quantum += c.Schedule[i+1].Quantum
			c.Schedule = append(c.Schedule[:i+1], c.Schedule[i+2:]...)
			if try(c) {
				continue
			}
		}
		c = (*cur).Clone()
		c.Schedule = append(c.Schedule[:i], c.Schedule[i+1:]...)
		if try(c) {
			continue
		}
		// give the entry's steps to the previous entry of the same task
	}
	// make the last entry unbounded (fewer switches)
	if n := len((*cur).Schedule); n > 0 {
		c := (*cur).Clone()
		c.Schedule[n-1].Quantum = 1 << 40
		try(c)
	}
}

func shrinkString(s string, accept func(string) bool) string {
	r := []rune(s)
	for chunk := len(r); chunk >= 1; chunk /= 2 {
		for start := 0; start < len(r); {
			end := start + chunk
			if end > len(r) {
				end = len(r)
			}
			cand := string(append(append([]rune{}, r[:start]...), r[end:]...))
			if accept(cand) {
				r = []rune(cand)
			} else {
				start += chunk
			}
		}
	}
	return string(r)
}

func minimiseStrings(cur **Plan, try func(*Plan) bool) {
	for ti := range (*cur).Tasks {
		ti := ti
		if (*cur).Tasks[ti].Text != "" {
			shrinkString((*cur).Tasks[ti].Text, func(s string) bool {
				c := (*cur).Clone()
				c.Tasks[ti].Text = s
				return try(c)
			})
		}
	}
	for k := 0; k < countOps(*cur); k++ {
		k := k
		var s, s2 string
		i := 0
		eachOp(*cur, func(o *Op) {
			if i == k && o.Op != "setexpr" && o.Op != "settmpl" {
				// texts that come with generator bookkeeping (expected names) are atomic
				s, s2 = o.S, o.S2
			}
			i++
		})
		if s != "" {
			shrinkString(s, func(x string) bool {
				return forOp(cur, k, func(o *Op) bool { o.S = x; return true }, try)
			})
		}
		if s2 != "" {
			shrinkString(s2, func(x string) bool {
				return forOp(cur, k, func(o *Op) bool { o.S2 = x; return true }, try)
			})
		}
	}
}

func minimiseInts(cur **Plan, try func(*Plan) bool) {
	for k := 0; k < countOps(*cur); k++ {
		for _, which := range []int{0, 1, 2} {
			for _, f := range []func(int) int{func(int) int { return 0 }, func(x int) int { return x / 2 }, func(x int) int {
				if x > 0 {
					return x - 1
				}
				if x < 0 {
					return x + 1
				}
				return 0
			}} {
				forOp(cur, k, func(o *Op) bool {
					p := &o.I
					if which == 1 {
						p = &o.J
					}
					if which == 2 {
						if o.F == nil {
							return false
						}
						p = &o.F.At
					}
					n := f(*p)
					if n == *p {
						return false
					}
					*p = n
					return true
				}, try)
			}
		}
	}
}

func minimiseValues(cur **Plan, try func(*Plan) bool) {
	for k := 0; k < countOps(*cur); k++ {
		// drop list elements
		for j := 8; j >= 0; j-- {
			forOp(cur, k, func(o *Op) bool {
				if j >= len(o.Vs) {
					return false
				}
				o.Vs = append(append([]Val{}, o.Vs[:j]...), o.Vs[j+1:]...)
				return true
			}, try)
			forOp(cur, k, func(o *Op) bool {
				if j >= len(o.Ss) {
					return false
				}
				o.Ss = append(append([]string{}, o.Ss[:j]...), o.Ss[j+1:]...)
				return true
			}, try)
		}
	}
	// drop variable sets' entries
	for ti := range (*cur).Tasks {
		for si := range (*cur).Tasks[ti].Sets {
			var names []string
			for n := range (*cur).Tasks[ti].Sets[si] {
				names = append(names, n)
			}
			sortStrings(names)
			for _, n := range names {
				c := (*cur).Clone()
				delete(c.Tasks[ti].Sets[si], n)
				try(c)
			}
		}
	}
}

func sortStrings(s []string) {
	for i := 1; i < len(s); i++ {
		for j := i; j > 0 && s[j] < s[j-1]; j-- {
			s[j], s[j-1] = s[j-1], s[j]
		}
	}
}

// ---- race reports ------------------------------------------------------------

var frameRe = regexp.MustCompile(`(?m)^  (\S+)\(\)\s*$`)

const modPrefix = "github.com/pip-services3-gox/pip-services3-expressions-gox/"

// RaceTopFrames returns the innermost function of each of the two accesses of
// the first report in a race detector log.
func RaceTopFrames(log string) (string, string, bool) {
	i := strings.Index(log, "WARNING: DATA RACE")
	if i < 0 {
		return "", "", false
	}
	log = log[i:]
	secs := strings.Split(log, "\n\n")
	var tops []string
	for _, s := range secs {
		head := strings.TrimSpace(strings.SplitN(strings.TrimPrefix(s, "WARNING: DATA RACE\n"), "\n", 2)[0])
		if strings.HasPrefix(head, "Read at") || strings.HasPrefix(head, "Write at") ||
			strings.HasPrefix(head, "Previous read at") || strings.HasPrefix(head, "Previous write at") ||
			strings.HasPrefix(head, "Atomic") || strings.HasPrefix(head, "Previous atomic") {
			// innermost frame that is not Go runtime / standard library code
			top := "?"
			all := frameRe.FindAllStringSubmatch(s, -1)
			if len(all) > 0 {
				top = all[0][1]
			}
			for _, m := range all {
				if strings.HasPrefix(m[1], modPrefix) || strings.HasPrefix(m[1], "verifsim.") {
					top = m[1]
					break
				}
			}
			tops = append(tops, top)
		}
		if len(tops) == 2 {
			break
		}
	}
	if len(tops) < 2 {
		return "", "", false
	}
	return tops[0], tops[1], true
}

func shortFn(f string) string {
	f = strings.TrimPrefix(f, modPrefix)
	f = strings.ReplaceAll(f, "(*", "")
	f = strings.ReplaceAll(f, ")", "")
	return f
}

// RaceClassFromLog gives the violation class of a race report, or "" if the
// report does not involve library code in both top frames.
func RaceClassFromLog(log string) string {
	a, b, ok := RaceTopFrames(log)
	if !ok {
		return ""
	}
	if !strings.HasPrefix(a, modPrefix) || !strings.HasPrefix(b, modPrefix) {
		return ""
	}
	if strings.Contains(a, "/verifsimrt") || strings.Contains(b, "/verifsimrt") {
		return ""
	}
	x, y := shortFn(a), shortFn(b)
	if y < x {
		x, y = y, x
	}
	return "C19/race/" + x + "|" + y
}
