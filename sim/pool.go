package sim

import "strings"

// Input pools of the history and fault workloads (DESIGN §4.2): every
// registered multi-character symbol of every tokenizer, one lexeme of every
// token class, unterminated literals, malformed inputs, Latin-1 and non-Latin
// text.

var poolTokenizer = []string{
	"a<=b", "a>=b", "a<>b", "a!=b", "a<<b", "a>>b", "<= >= <> != << >>", "<", "<<<", "<>=",
	"{{", "}}", "{{{", "}}}", "{{{x}}}", "{ {",
	"\r\n", "\n\r", "x\r\ny\n\rz\rw\nv",
	"abc", "_x1", "AND", "not", "123", "1.5", "1e5", "1.5e-3", ".5", "-7", "-", "1.", "0x1F",
	"'str'", "'it''s'", "\"dq\"", "'abc", "\"open", "'é'", "'λ'",
	"/* c */", "/* open", "// line\nx", "# hash\ny", "/", "/x",
	"  \t ", " a  b ", "",
	"é", "λx", "日本 語", "aé_λ1", " ", "\x00\x01",
	"1 +", "(a", "a b", ")", "a[1", "f(", "f(1,", "1 2", "a IS NOT NULL", "a NOT IN b", "x LIKE 'a%'",
	"Max(a,b)+Min(1,2)", "1+2*3", "(a+b)*-c", "a AND NOT b OR c", "Array(1,2,3)[1]",
}

var poolCsv = []string{
	"a,b\r\n1,2", "\"q\"\"x\",y\n\r", "\"unterminated", ",,\n", "\r\n\r\n", "\n\r", "x\ry", "é,λ\r\n日本,", "", "a", "'a',\"b\"",
	"1;2;3", "\"a\r\nb\",c", "a,«", "«x»,y", "名", "a，b", "名，«q»\n", "x,\"", "«", "😀,😀😀\n", "\uffff,\uffff",
}

var poolMustache = []string{
	"Hello {{name}}!", "{{#a}}x{{/a}}", "{{^a}}y{{/a}}", "{{{raw}}}", "{{! c }}", "{{#a}}x", "{{/a}}", "{{a", "{{{a}}", "{{a}}}",
	"{{#if a}}1{{/if}}", "{{#unless a}}2{{/unless}}", "{{#a}}{{#b}}n{{/b}}{{/a}}", "{{#a}}x{{/b}}", "plain text", "", "{{}}", "{{ a b }}",
	"é {{λ}} 日本", "{ {a} }", "😀 {{a}} 😀😀", "{{😀}}", "{{a 😀}}", "{{#a}}{{name}}{{/}}", "{{>partial}}", "{{a}}{{A}}{{b}}", "'{{a}}' \"{{b}}\"",
}

var poolExpression = []string{
	"a<=b", "a<>b", "a<<b", "a>=b", "a>>1", "a!=b", "a<b", "a>b", "a=b",
	"1+2*3", "Max(a,b)", "Min(a,b,c)+Sum(1,2,3)", "a AND b", "NOT a", "a IS NULL", "a IS NOT NULL", "a IN Array(1,2)", "a NOT IN Array(1,2)",
	"Array(1,2,3)[1]", "'str'+'x'", "\"a\"+1", "-a", "+a", "(a)", "a % 2", "a ^ 2", "2 * (3 + 4) / 5",
	"1 +", "(a", "a b", ")", "a[1", "f(", "f(1,", "1 2", "", "  ", "a LIKE 'x'", "Unknown(1)", "zz", "1/0", "'é'", "'abc", "a <= ", "<= a",
	"a<=b AND a<>b AND a<<b", "If(a<=b, a<<1, a>>1)",
	"1%0", "a/(b-2)", "Array(1,2)[5]", "'abc'[7]", "Array(1)[-1]", "''[0]", "1 << -1", "a >> -2", "zz NOT IN Array(1)", "zz IN Array(1)",
	"'1' + 1", "1 + '1'", "1 + 2.5", "TRUE + 1", "1 = '1'", "'2' * 3",
	"((((((((((((((((((((((((((((((((((((((((1 +", "Max(Max(Max(Max(Max(Max(Max(Max(Max(Max(1,", "a[a[a[a[a[a[a[a[a[a[1",
	"1 /*x*/😀", "a + 😀", "😀😀", "'😀' + 'x'", "a /* c */ /* d */ + 1",
	"Min(zz, 1)", "Choose(-1, 1, 2, 3)", "Choose(9, 1, 2, 3)", "If('x', 1, 2)", "'é' + 'λ'", "\"é\"",
}

func init() {
	// one expression nested deeper than any plausible fixed limit, well formed
	poolExpression = append(poolExpression, strings.Repeat("(", 300)+"1"+strings.Repeat(")", 300))
}

// defaultVarSet is the variable assignment used with pool expressions.
func defaultVarSet() VarSet {
	return VarSet{"a": VInt(1), "b": VInt(2), "c": VInt(3), "zz": VNull()}
}

func defaultTmplSet() VarSet {
	return VarSet{"name": VStr("World"), "a": VStr("1"), "b": VStr(""), "raw": VStr("<\"x\">"), "λ": VStr("L")}
}
