package sim

import (
	"encoding/json"
	"fmt"
	"hash/fnv"
	"math/rand"
	"sort"
	"time"
)

// ---- the replayable plan -------------------------------------------------

// Op is one operation of a history. The meaning of the generic argument
// fields is fixed per property (see the p_*.go files); unknown or ill-formed
// operations are skipped by the executors so that minimisation may drop or
// shrink anything.
type Op struct {
	Op  string   `json:"op"`
	H   int      `json:"h,omitempty"`  // handle / instance index
	H2  int      `json:"h2,omitempty"` // second handle
	I   int      `json:"i,omitempty"`  // integer argument
	J   int      `json:"j,omitempty"`  // second integer argument
	S   string   `json:"s,omitempty"`  // string argument
	S2  string   `json:"s2,omitempty"` // second string argument
	V   *Val     `json:"v,omitempty"`  // value argument
	Vs  []Val    `json:"vs,omitempty"` // value list argument
	Ss  []string `json:"ss,omitempty"` // string list argument
	F   *Fault   `json:"fault,omitempty"`
	Set int      `json:"set,omitempty"` // variable set index
}

// Fault is a fault placed inside one operation at a seam of DESIGN §1.
type Fault struct {
	Kind string `json:"kind"` // eof_at | fail_at | abandon_after | fn_error | fn_panic | var_missing | op_error
	At   int    `json:"at"`   // seam call index / token count
	Name string `json:"name,omitempty"`
}

type VarSet map[string]Val

type TaskPlan struct {
	Kind string   `json:"kind,omitempty"`
	Text string   `json:"text,omitempty"`
	Sets []VarSet `json:"sets,omitempty"`
	Ops  []Op     `json:"ops"`
}

type Expect struct {
	Oracle string `json:"oracle"`
	Class  string `json:"class"`
	Detail string `json:"detail"`
}

type Plan struct {
	Property string            `json:"property"`
	Seed     uint64            `json:"seed"`
	Index    int               `json:"index"`
	Scenario string            `json:"scenario,omitempty"`
	Config   map[string]string `json:"config,omitempty"`
	Setup    []Op              `json:"setup,omitempty"`
	Tasks    []TaskPlan        `json:"tasks"`
	Policy   string            `json:"policy,omitempty"`   // how the schedule was produced (informational)
	Schedule []SchedEntry      `json:"schedule,omitempty"` // executed schedule; replay follows it
	Expect   *Expect           `json:"expect,omitempty"`
	// Prelude: runs executed (outcomes ignored) in the same process before this
	// one. Needed only to replay violations that depend on process-global state
	// of the code under test left behind by earlier runs.
	Prelude []*Plan `json:"prelude,omitempty"`
}

func (p *Plan) Clone() *Plan {
	b, _ := json.Marshal(p)
	q := &Plan{}
	_ = json.Unmarshal(b, q)
	return q
}

func (p *Plan) Cfg(k, def string) string {
	if v, ok := p.Config[k]; ok {
		return v
	}
	return def
}

func (p *Plan) NumOps() int {
	n := len(p.Setup)
	for _, t := range p.Tasks {
		n += len(t.Ops)
	}
	return n
}

// ---- seeds and randomness ------------------------------------------------

func splitmix64(x uint64) uint64 {
	x += 0x9e3779b97f4a7c15
	z := x
	z = (z ^ (z >> 30)) * 0xbf58476d1ce4e5b9
	z = (z ^ (z >> 27)) * 0x94d049bb133111eb
	return z ^ (z >> 31)
}

// RunSeed derives the per-run seed from VERIF_SEED, the property and the run index.
func RunSeed(verifSeed uint64, prop string, index int) uint64 {
	h := fnv.New64a()
	h.Write([]byte(prop))
	x := splitmix64(verifSeed ^ h.Sum64())
	return splitmix64(x + uint64(index)*0x9e3779b97f4a7c15)
}

// Rand is the only source of random choices of a run.
type Rand struct{ *rand.Rand }

func NewRand(seed uint64) *Rand {
	return &Rand{rand.New(rand.NewSource(int64(seed & 0x7fffffffffffffff)))}
}

func (r *Rand) Bool(p float64) bool { return r.Float64() < p }
func (r *Rand) Range(lo, hi int) int { // inclusive
	if hi <= lo {
		return lo
	}
	return lo + r.Intn(hi-lo+1)
}
func (r *Rand) Pick(ss []string) string { return ss[r.Intn(len(ss))] }
func (r *Rand) PickInt(xs []int) int    { return xs[r.Intn(len(xs))] }
func (r *Rand) PickRune(xs []rune) rune { return xs[r.Intn(len(xs))] }

// Weighted picks an index with probability proportional to w[i].
func (r *Rand) Weighted(w []int) int {
	t := 0
	for _, x := range w {
		t += x
	}
	if t <= 0 {
		return 0
	}
	n := r.Intn(t)
	for i, x := range w {
		if n < x {
			return i
		}
		n -= x
	}
	return len(w) - 1
}

// ---- hashing ----------------------------------------------------------------

type Hasher struct{ h uint64 }

func NewHasher() *Hasher { return &Hasher{h: 14695981039346656037} }
func (h *Hasher) Str(s string) *Hasher {
	for i := 0; i < len(s); i++ {
		h.h ^= uint64(s[i])
		h.h *= 1099511628211
	}
	h.h ^= 0xff
	h.h *= 1099511628211
	return h
}
func (h *Hasher) Int(x int64) *Hasher {
	h.h = (h.h ^ uint64(x)) * 1099511628211
	h.h ^= h.h >> 29
	h.h *= 0xbf58476d1ce4e5b9
	return h
}
func (h *Hasher) Sum() uint64 { return h.h }

func HashStr(s string) uint64 { return NewHasher().Str(s).Sum() }

func HashJSON(v any) uint64 {
	b, _ := json.Marshal(v)
	return HashStr(string(b))
}

// ---- schedule choosers -------------------------------------------------------

var clockJumps = []int64{0, 1, 999_000_000, 1_000_000_000, 3600e9, 36 * 3600e9, 400 * 24 * 3600e9, 30 * 365 * 24 * 3600e9}

// PolicyChooser produces a schedule from a seeded policy.
type PolicyChooser struct {
	R       *Rand
	Policy  string
	MaxQ    int
	SwitchP float64
	Jumps   bool
	Zone    *time.Location // when set: some jumps land around the next daylight-saving transition of this zone
	last    int
	rrPos   int
	prio    []int // PCT priorities
	changes map[int64]bool
	decided int64
	starve  int
}

// Scale (flag -sim.scale) multiplies the size bounds of the generators: 1 in the
// quick tier, 3 in the thorough tier (longer contents, histories and inputs).
var Scale = 1

// Size draws the size class of a run (swarm style): most runs are small, some
// medium, a few large; multiplied by the tier's Scale. Thresholds, capacities
// and counters of the code under test are only reached by the large ones.
func (r *Rand) Size() int {
	switch n := r.Intn(100); {
	case n < 72:
		return Scale
	case n < 95:
		return 3 * Scale
	default:
		return 10 * Scale
	}
}

// ObsStride draws how often a history's extra observations are made: after
// every operation (most runs), after every k-th, or only at the end. Observing
// is itself a call into the code under test and may flush or repair state
// (lazy buffers, pending recomputations) that a real caller would leave alone.
func (r *Rand) ObsStride() int {
	switch n := r.Intn(100); {
	case n < 60:
		return 1
	case n < 90:
		return r.Range(2, 12)
	default:
		return 1 << 30 // only at the end
	}
}

// Observe reports whether operation i of n is followed by observations under stride.
func Observe(stride, i, n int) bool {
	if stride <= 1 || i == n-1 {
		return true
	}
	return (i+1)%stride == 0
}

func (p *Plan) Stride() int {
	n := 0
	fmt.Sscan(p.Cfg("obs", "1"), &n)
	if n < 1 {
		n = 1
	}
	return n
}

// CoarseMode (flag -sim.coarse): pre-empt at operation boundaries only.
var CoarseMode = false

var Policies = []string{"uniform", "sticky", "roundrobin", "pct", "starve", "serial"}

func NewPolicyChooser(r *Rand, policy string, ntasks int, jumps bool) *PolicyChooser {
	c := &PolicyChooser{R: r, Policy: policy, Jumps: jumps, last: -1}
	c.MaxQ = []int{1, 3, 8, 20, 40, 120, 400}[r.Intn(7)]
	if CoarseMode {
		c.MaxQ = []int{1, 1, 2, 3}[r.Intn(4)]
	}
	c.SwitchP = []float64{0.05, 0.2, 0.5}[r.Intn(3)]
	c.prio = r.Perm(ntasks + 1)
	c.changes = map[int64]bool{}
	for i := r.Intn(4); i > 0; i-- {
		c.changes[int64(r.Intn(60))] = true
	}
	c.starve = r.Intn(ntasks + 1)
	return c
}

func (c *PolicyChooser) Next(runnable []int) SchedEntry {
	c.decided++
	q := int64(1 + c.R.Intn(c.MaxQ))
	pick := runnable[0]
	has := func(id int) bool {
		for _, x := range runnable {
			if x == id {
				return true
			}
		}
		return false
	}
	switch c.Policy {
	case "serial":
		pick = runnable[0]
		q = 1 << 40
	case "uniform":
		pick = runnable[c.R.Intn(len(runnable))]
	case "sticky":
		if c.last >= 0 && has(c.last) && !c.R.Bool(c.SwitchP) {
			pick = c.last
		} else {
			pick = runnable[c.R.Intn(len(runnable))]
		}
	case "roundrobin":
		c.rrPos++
		pick = runnable[c.rrPos%len(runnable)]
	case "pct":
		if c.changes[c.decided] {
			// demote the current top priority task
			best := runnable[0]
			for _, id := range runnable {
				if c.prio[id] > c.prio[best] {
					best = id
				}
			}
			c.prio[best] = -int(c.decided)
		}
		best := runnable[0]
		for _, id := range runnable {
			if c.prio[id] > c.prio[best] {
				best = id
			}
		}
		pick = best
	case "starve":
		var others []int
		for _, id := range runnable {
			if id != c.starve {
				others = append(others, id)
			}
		}
		if len(others) > 0 && !(c.decided < 3 && has(c.starve) && c.R.Bool(0.5)) {
			pick = others[c.R.Intn(len(others))]
		} else {
			pick = runnable[c.R.Intn(len(runnable))]
		}
	default:
		pick = runnable[c.R.Intn(len(runnable))]
	}
	c.last = pick
	e := SchedEntry{Task: pick, Quantum: q}
	if c.Jumps && c.R.Bool(0.5) {
		e.JumpNs = clockJumps[c.R.Intn(len(clockJumps))]
		if c.Zone != nil && c.R.Bool(0.6) {
			// land shortly before, on, or inside the hours after the next transition of the run's zone
			if _, end := time.Now().In(c.Zone).ZoneBounds(); !end.IsZero() {
				t := end.Add(time.Duration(c.R.PickInt([]int{-90, -30, -1, 0, 1, 15, 30, 59, 61, 90})) * time.Minute)
				if d := time.Until(t); d > 0 {
					e.JumpNs = int64(d)
				}
			}
		}
		// the fake clock of a synctest bubble is an int64 of nanoseconds: stay far below its end (year 2262)
		if time.Now().Add(time.Duration(e.JumpNs)).Year() > 2200 {
			e.JumpNs = 0
		}
	}
	return e
}

// ReplayChooser follows a recorded schedule; once it is used up the remaining
// tasks run to completion in index order.
type ReplayChooser struct {
	Sched []SchedEntry
	pos   int
}

func (c *ReplayChooser) Next(runnable []int) SchedEntry {
	for c.pos < len(c.Sched) {
		e := c.Sched[c.pos]
		c.pos++
		for _, id := range runnable {
			if id == e.Task {
				return e
			}
		}
	}
	return SchedEntry{Task: runnable[0], Quantum: 1 << 40}
}

// ScheduleSig is the signature of an executed schedule.
func ScheduleSig(s []SchedEntry) uint64 {
	h := NewHasher()
	for _, e := range s {
		h.Int(int64(e.Task)).Int(e.Quantum).Int(e.JumpNs)
	}
	return h.Sum()
}

// ---- outcome -----------------------------------------------------------------

type Violation struct {
	Oracle string `json:"oracle"`
	Class  string `json:"class"`
	Detail string `json:"detail"`
}

type Outcome struct {
	Violations   []Violation
	Nontrivial   bool
	CaseSig      uint64         // signature of the case (ops+faults+schedule) for distinctness
	ModelStates  []uint64       // abstract model states visited
	Faults       map[string]int // fired faults per kind
	Probes       map[string]int
	Observations map[string]int
	Events       *Hasher // outcome log hash: fault firings and the result of every operation
	Sched        *Hasher // the executed schedule in yield steps (differs legitimately when the code under test keeps process-global caches or pools: step counts then depend on what the process ran before)
	Steps        int64
	Switches     int64
	SwitchPairs  map[[2]int32]int
	SimTimeNs    int64
	SchedSig     uint64
}

func NewOutcome() *Outcome {
	return &Outcome{Faults: map[string]int{}, Probes: map[string]int{}, Observations: map[string]int{}, Events: NewHasher(), Sched: NewHasher()}
}

func (o *Outcome) Violate(oracle, class, format string, a ...any) {
	o.Violations = append(o.Violations, Violation{Oracle: oracle, Class: class, Detail: fmt.Sprintf(format, a...)})
}
func (o *Outcome) Event(format string, a ...any) {
	o.Events.Str(fmt.Sprintf(format, a...))
}
func (o *Outcome) State(parts ...any) {
	o.ModelStates = append(o.ModelStates, HashStr(fmt.Sprint(parts...)))
}

// FirstClass returns the class of the first violation ("" if none); classes
// are reported sorted so that the choice does not depend on detection order.
func (o *Outcome) Classes() []string {
	m := map[string]bool{}
	for _, v := range o.Violations {
		m[v.Class] = true
	}
	var out []string
	for k := range m {
		out = append(out, k)
	}
	sort.Strings(out)
	return out
}
