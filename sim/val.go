package sim

import (
	"fmt"
	"math"
	"strconv"
	"strings"
	"time"

	cerrors "github.com/pip-services3-gox/pip-services3-commons-gox/errors"
	"github.com/pip-services3-gox/pip-services3-expressions-gox/variants"
)

// Val is the JSON form of a variant value used in plans and in comparisons.
type Val struct {
	T string `json:"t"`           // Null Integer Long Float Double String Boolean DateTime TimeSpan Array Object
	I int64  `json:"i,omitempty"` // Integer, Long, TimeSpan (ns), DateTime (unix ns)
	F string `json:"f,omitempty"` // Float, Double: hex bit pattern
	S string `json:"s,omitempty"` // String; DateTime: zone offset seconds as text
	B bool   `json:"b,omitempty"`
	A []Val  `json:"a,omitempty"`
}

func VInt(i int) Val    { return Val{T: "Integer", I: int64(i)} }
func VLong(i int64) Val { return Val{T: "Long", I: i} }
func VFloat(f float32) Val {
	return Val{T: "Float", F: strconv.FormatUint(uint64(math.Float32bits(f)), 16)}
}
func VDouble(f float64) Val { return Val{T: "Double", F: strconv.FormatUint(math.Float64bits(f), 16)} }
func VStr(s string) Val     { return Val{T: "String", S: s} }
func VBool(b bool) Val      { return Val{T: "Boolean", B: b} }
func VNull() Val            { return Val{T: "Null"} }
func VSpan(d time.Duration) Val {
	return Val{T: "TimeSpan", I: int64(d)}
}
func VTime(t time.Time) Val {
	_, off := t.Zone()
	return Val{T: "DateTime", I: t.UnixNano(), S: strconv.Itoa(off)}
}
func VArr(a ...Val) Val { return Val{T: "Array", A: append([]Val{}, a...)} }

func (v Val) Float32() float32 {
	u, _ := strconv.ParseUint(v.F, 16, 32)
	return math.Float32frombits(uint32(u))
}
func (v Val) Float64() float64 {
	u, _ := strconv.ParseUint(v.F, 16, 64)
	return math.Float64frombits(u)
}
func (v Val) Time() time.Time {
	off, _ := strconv.Atoi(v.S)
	return time.Unix(0, v.I).In(time.FixedZone("", off))
}

// ToVariant builds a fresh library variant from a Val.
func (v Val) ToVariant() *variants.Variant {
	switch v.T {
	case "Integer":
		return variants.VariantFromInteger(int(v.I))
	case "Long":
		return variants.VariantFromLong(v.I)
	case "Float":
		return variants.VariantFromFloat(v.Float32())
	case "Double":
		return variants.VariantFromDouble(v.Float64())
	case "String":
		return variants.VariantFromString(v.S)
	case "Boolean":
		return variants.VariantFromBoolean(v.B)
	case "DateTime":
		return variants.VariantFromDateTime(v.Time())
	case "TimeSpan":
		return variants.VariantFromTimeSpan(time.Duration(v.I))
	case "Array":
		a := make([]*variants.Variant, len(v.A))
		for i := range v.A {
			a[i] = v.A[i].ToVariant()
		}
		return variants.VariantFromArray(a)
	case "Object":
		return variants.VariantFromObject(HostObject{K: int(v.I)})
	}
	return variants.EmptyVariant()
}

// HostObject is the caller's own (comparable) type held by Object variants of variable sets.
type HostObject struct{ K int }

var typeNames = map[variants.VariantType]string{
	variants.Null: "Null", variants.Integer: "Integer", variants.Long: "Long", variants.Float: "Float",
	variants.Double: "Double", variants.String: "String", variants.Boolean: "Boolean",
	variants.DateTime: "DateTime", variants.TimeSpan: "TimeSpan", variants.Object: "Object", variants.Array: "Array",
}

func TypeName(t variants.VariantType) string {
	if s, ok := typeNames[t]; ok {
		return s
	}
	return fmt.Sprintf("Type(%d)", int(t))
}

// FromVariant takes a deep structural copy of a library variant. It never
// panics: a payload that does not match the reported type is described as such.
func FromVariant(x *variants.Variant) (v Val) {
	return fromVariant(x, 0)
}

func fromVariant(x *variants.Variant, depth int) (v Val) {
	if x == nil {
		return Val{T: "<nil>"}
	}
	defer func() {
		if p := recover(); p != nil {
			v = Val{T: "<bad:" + TypeName(x.Type()) + ">", S: fmt.Sprintf("%T", x.AsObject())}
		}
	}()
	if depth > 300 {
		return Val{T: "<deep>"}
	}
	switch x.Type() {
	case variants.Null:
		if x.AsObject() != nil {
			return Val{T: "<bad:Null>", S: fmt.Sprintf("%T", x.AsObject())}
		}
		return VNull()
	case variants.Integer:
		return VInt(x.AsInteger())
	case variants.Long:
		return VLong(x.AsLong())
	case variants.Float:
		return VFloat(x.AsFloat())
	case variants.Double:
		return VDouble(x.AsDouble())
	case variants.String:
		return VStr(x.AsString())
	case variants.Boolean:
		return VBool(x.AsBoolean())
	case variants.DateTime:
		return VTime(x.AsDateTime())
	case variants.TimeSpan:
		return VSpan(x.AsTimeSpan())
	case variants.Array:
		a, ok := x.AsObject().([]*variants.Variant)
		if !ok {
			return Val{T: "<bad:Array>", S: fmt.Sprintf("%T", x.AsObject())}
		}
		out := Val{T: "Array", A: make([]Val, len(a))}
		for i := range a {
			out.A[i] = fromVariant(a[i], depth+1)
		}
		return out
	case variants.Object:
		if f, ok := x.AsObject().(func(int) int); ok && f != nil {
			return Val{T: "Object", S: "func(int) int:c20Func"} // a function value prints as an address
		}
		return Val{T: "Object", S: fmt.Sprintf("%T:%v", x.AsObject(), x.AsObject())}
	}
	return Val{T: TypeName(x.Type())}
}

// Equal is structural equality: floats by bit pattern (so NaN equals the same
// NaN), date-times by instant and zone offset.
func (v Val) Equal(w Val) bool {
	if v.T != w.T || v.I != w.I || v.F != w.F || v.S != w.S || v.B != w.B || len(v.A) != len(w.A) {
		return false
	}
	for i := range v.A {
		if !v.A[i].Equal(w.A[i]) {
			return false
		}
	}
	return true
}

func (v Val) String() string {
	switch v.T {
	case "Integer", "Long":
		return fmt.Sprintf("%s %d", v.T, v.I)
	case "Float":
		return fmt.Sprintf("Float %v", v.Float32())
	case "Double":
		return fmt.Sprintf("Double %v", v.Float64())
	case "String":
		return fmt.Sprintf("String %q", v.S)
	case "Boolean":
		return fmt.Sprintf("Boolean %v", v.B)
	case "DateTime":
		return "DateTime " + v.Time().Format(time.RFC3339Nano)
	case "TimeSpan":
		return "TimeSpan " + time.Duration(v.I).String()
	case "Array":
		parts := make([]string, len(v.A))
		for i := range v.A {
			parts[i] = v.A[i].String()
		}
		return "Array[" + strings.Join(parts, ", ") + "]"
	}
	if v.S != "" {
		return v.T + " " + v.S
	}
	return v.T
}

// HasNaN reports whether the value contains a floating-point NaN anywhere.
func (v Val) HasNaN() bool {
	switch v.T {
	case "Float":
		f := v.Float32()
		return f != f
	case "Double":
		return math.IsNaN(v.Float64())
	case "Array":
		for _, e := range v.A {
			if e.HasNaN() {
				return true
			}
		}
	}
	return false
}

// ErrCode extracts a stable description of an error: the ApplicationError
// code when there is one, otherwise the Go type.
func ErrCode(err error) string {
	if err == nil {
		return ""
	}
	if ae, ok := err.(*cerrors.ApplicationError); ok && ae != nil {
		return ae.Code
	}
	return fmt.Sprintf("%T", err)
}

func ErrMessage(err error) string {
	if err == nil {
		return ""
	}
	if ae, ok := err.(*cerrors.ApplicationError); ok && ae != nil {
		return ae.Message
	}
	return err.Error()
}
