package sim

import (
	"encoding/binary"
	"encoding/json"
	"flag"
	"fmt"
	"os"
	"os/exec"
	"sort"
	"strings"
	"syscall"
	"testing"
	"time"
)

var (
	fMode    = flag.String("sim.mode", "", "batch | replay | minimise | record | merge | null")
	fProp    = flag.String("sim.prop", "", "property id")
	fSeed    = flag.Uint64("sim.seed", 1, "VERIF_SEED")
	fFrom    = flag.Int("sim.from", 0, "first run index")
	fTo      = flag.Int("sim.to", 0, "one past the last run index")
	fStride  = flag.Int("sim.stride", 1, "take every stride-th index starting at from")
	fOut     = flag.String("sim.out", "", "output prefix (files <out>.json, <out>.sigs ...)")
	fPlan    = flag.String("sim.plan", "", "plan file (replay / minimise)")
	fSites   = flag.String("sim.sites", "", "sites.json of the instrumented copy")
	fBudget  = flag.Float64("sim.wall", 0, "wall-clock cap in seconds for a batch (0 = none)")
	fHashEv  = flag.Int("sim.hashevery", 0, "record the event hash of every n-th run index")
	fMaxViol = flag.Int("sim.maxviol", 12, "violating plans kept per worker")
	fChild   = flag.String("sim.childbin", "", "binary to use for per-candidate child processes when minimising (race oracle)")
	fFaults  = flag.String("sim.faults", "", "override: on | off (default: per-run swarm choice)")
	fInputs  = flag.String("sim.inputs", "", "comma separated list of worker output prefixes (merge)")
	fCoarse  = flag.String("sim.coarse", "", "on: pre-empt tasks at operation boundaries only (fallback when the code under test blocks for real)")
	fPrelude = flag.Int("sim.prelude", 0, "record: also execute and record this many preceding runs of the same worker (indices idx-k*stride)")
	fScale   = flag.Int("sim.scale", 1, "multiplier of the generators' size bounds")
	fOrder   = flag.String("sim.order", "", "override C19 phase order: conc-first | ref-first")
)

var simExit = 0

func TestMain(m *testing.M) {
	flag.Parse()
	code := m.Run()
	if code == 0 {
		code = simExit
	}
	os.Exit(code)
}

// Ctx is what an executor gets besides the plan.
type Ctx struct {
	R      *Rand // schedule / fault-placement randomness; nil when replaying
	Replay bool
	T      *testing.T
}

type Prop interface {
	ID() string
	Gen(r *Rand) *Plan
	Exec(p *Plan, x *Ctx) *Outcome
}

var registry = map[string]Prop{}

func Register(p Prop) { registry[p.ID()] = p }

type siteInfo struct {
	ID   int    `json:"id"`
	File string `json:"file"`
	Line int    `json:"line"`
	Func string `json:"func"`
}

var siteTable []siteInfo

func loadSites() {
	if *fSites == "" {
		InitSites(8192)
		return
	}
	b, err := os.ReadFile(*fSites)
	if err != nil {
		fatal2("cannot read sites: %v", err)
	}
	if err := json.Unmarshal(b, &siteTable); err != nil {
		fatal2("bad sites file: %v", err)
	}
	InitSites(len(siteTable))
}

func fatal2(format string, a ...any) {
	fmt.Fprintf(os.Stderr, "sim: "+format+"\n", a...)
	os.Exit(2)
}

type ViolatingRun struct {
	Plan       *Plan       `json:"plan"`
	Violations []Violation `json:"violations"`
}

// WorkerOut is what one batch worker reports.
type WorkerOut struct {
	Property     string            `json:"property"`
	Seed         uint64            `json:"seed"`
	From         int               `json:"from"`
	To           int               `json:"to"`
	Stride       int               `json:"stride"`
	Evaluations  int               `json:"evaluations"`
	Nontrivial   int               `json:"nontrivial"`
	Violating    []ViolatingRun    `json:"violating"`
	ViolCount    int               `json:"viol_count"`
	ClassCounts  map[string]int    `json:"class_counts"`
	Faults       map[string]int    `json:"faults"`
	Probes       map[string]int    `json:"probes"`
	Observations map[string]int    `json:"observations"`
	Steps        int64             `json:"steps"`
	Switches     int64             `json:"switches"`
	SimTimeNs    float64           `json:"sim_time_ns"`
	WallS        float64           `json:"wall_s"`
	Samples      []*Plan           `json:"samples"`
	SiteHits     []uint32          `json:"site_hits"`
	Hashes       map[string]string `json:"hashes"`  // run index -> outcome hash (sampled)
	SHashes      map[string]string `json:"shashes"` // run index -> schedule hash (sampled)
	RaceBuild    bool              `json:"race_build"`
	CutShort     bool              `json:"cut_short"`
	LastIndex    int               `json:"last_index"`
}

func TestSim(t *testing.T) {
	if *fMode == "" {
		t.Skip("no -sim.mode")
	}
	CoarseMode = *fCoarse == "on"
	Scale = max(1, *fScale)
	loadSites()
	switch *fMode {
	case "batch":
		runBatch(t)
	case "replay":
		runReplay(t)
	case "record":
		runRecord(t)
	case "plan":
		// the plan of one run index as generated, without executing it (to look at a run that does not end)
		p := prop()
		seed := RunSeed(*fSeed, p.ID(), *fFrom)
		plan := p.Gen(NewRand(seed))
		plan.Property, plan.Seed, plan.Index = p.ID(), seed, *fFrom
		applyOverrides(plan)
		b, _ := json.MarshalIndent(plan, "", " ")
		if err := os.WriteFile(*fOut, b, 0o644); err != nil {
			fatal2("write: %v", err)
		}
	case "minimise":
		runMinimise(t)
	case "merge":
		runMerge(t)
	default:
		fatal2("unknown mode %q", *fMode)
	}
}

func prop() Prop {
	p, ok := registry[*fProp]
	if !ok {
		fatal2("unknown property %q", *fProp)
	}
	warm(p)
	return p
}

// warm lets a property compute reference data on untouched package state,
// before the first run of the process.
func warm(p Prop) {
	if w, ok := p.(interface{ Warmup() }); ok {
		w.Warmup()
	}
}

// execOne generates and executes run index idx.
func execOne(t *testing.T, p Prop, idx int) (*Plan, *Outcome) {
	seed := RunSeed(*fSeed, p.ID(), idx)
	r := NewRand(seed)
	plan := p.Gen(r)
	plan.Property = p.ID()
	plan.Seed = seed
	plan.Index = idx
	applyOverrides(plan)
	out := safeExec(p, plan, &Ctx{R: r, T: t})
	return plan, out
}

func applyOverrides(plan *Plan) {
	if plan.Config == nil {
		plan.Config = map[string]string{}
	}
	if *fFaults != "" {
		plan.Config["faults"] = *fFaults
	}
	if *fCoarse == "on" {
		plan.Config["coarse"] = "on"
	}
	if *fOrder != "" {
		plan.Config["order"] = *fOrder
	}
}

// execWithPrelude executes the prelude runs of a plan (outcomes ignored) and
// then the plan itself, all in this process.
func execWithPrelude(p Prop, plan *Plan, x *Ctx) *Outcome {
	for _, pre := range plan.Prelude {
		q := pre.Clone()
		q.Prelude = nil
		safeExec(p, q, &Ctx{Replay: true, T: x.T})
	}
	return safeExec(p, plan, x)
}

// safeExec turns a panic of the harness itself into exit 2: it is never a
// property violation.
func safeExec(p Prop, plan *Plan, x *Ctx) (out *Outcome) {
	defer func() {
		if e := recover(); e != nil {
			b, _ := json.Marshal(plan)
			fmt.Fprintf(os.Stderr, "sim: HARNESS PANIC in %s run %d: %v\nplan: %s\n", p.ID(), plan.Index, e, b)
			os.Exit(2)
		}
	}()
	return p.Exec(plan, x)
}

// distinctSet counts distinct 64-bit signatures in bounded memory. While there are at most
// distinctCap of them it is exact; past that it keeps the uniform sample whose mixed value has
// its low `level` bits zero (adaptive sampling, Wegman / Flajolet 1990): the estimate is
// len * 2^level, and sets of several workers merge by taking the largest level.
// (Unbounded sets made 16 thorough workers of C16 grow to 6 GB each and the kernel killed one.)
type distinctSet struct {
	level uint
	m     map[uint64]struct{}
}

const distinctCap = 1 << 20

func newDistinctSet() *distinctSet { return &distinctSet{m: map[uint64]struct{}{}} }

func mix64(x uint64) uint64 {
	x += 0x9e3779b97f4a7c15
	x = (x ^ (x >> 30)) * 0xbf58476d1ce4e5b9
	x = (x ^ (x >> 27)) * 0x94d049bb133111eb
	return x ^ (x >> 31)
}

func (d *distinctSet) keeps(h uint64) bool { return mix64(h)&(1<<d.level-1) == 0 }

func (d *distinctSet) raise(level uint) {
	if level <= d.level {
		return
	}
	d.level = level
	for k := range d.m {
		if !d.keeps(k) {
			delete(d.m, k)
		}
	}
}

func (d *distinctSet) Add(h uint64) {
	if !d.keeps(h) {
		return
	}
	d.m[h] = struct{}{}
	for len(d.m) > distinctCap {
		d.raise(d.level + 1)
	}
}

func (d *distinctSet) Estimate() int { return len(d.m) << d.level }

// file format: the level, then the kept signatures, little endian 64-bit words
func (d *distinctSet) write(path string) {
	xs := make([]uint64, 0, len(d.m))
	for k := range d.m {
		xs = append(xs, k)
	}
	sort.Slice(xs, func(i, j int) bool { return xs[i] < xs[j] })
	buf := make([]byte, 8*(len(xs)+1))
	binary.LittleEndian.PutUint64(buf, uint64(d.level))
	for i, x := range xs {
		binary.LittleEndian.PutUint64(buf[8*(i+1):], x)
	}
	if err := os.WriteFile(path, buf, 0o644); err != nil {
		fatal2("write %s: %v", path, err)
	}
}

func (d *distinctSet) mergeFile(path string) {
	b, err := os.ReadFile(path)
	if err != nil {
		fatal2("read %s: %v", path, err)
	}
	if len(b) < 8 || len(b)%8 != 0 {
		fatal2("bad signature file %s (%d bytes)", path, len(b))
	}
	d.raise(uint(binary.LittleEndian.Uint64(b)))
	for i := 8; i < len(b); i += 8 {
		d.Add(binary.LittleEndian.Uint64(b[i:]))
	}
}

// wallNanos reads the machine's clock directly (never the simulated clock of a synctest bubble).
func wallNanos() int64 {
	var tv syscall.Timeval
	if err := syscall.Gettimeofday(&tv); err != nil {
		return 0
	}
	return tv.Sec*1e9 + tv.Usec*1e3
}

func runBatch(t *testing.T) {
	p := prop()
	start := time.Now()
	w := &WorkerOut{Property: p.ID(), Seed: *fSeed, From: *fFrom, To: *fTo, Stride: *fStride,
		ClassCounts: map[string]int{}, Faults: map[string]int{}, Probes: map[string]int{}, Observations: map[string]int{},
		Hashes: map[string]string{}, SHashes: map[string]string{}, RaceBuild: RaceBuild}
	sigs, states, scheds, pairs := newDistinctSet(), newDistinctSet(), newDistinctSet(), newDistinctSet()
	var longest, middle, first *Plan
	mid := *fFrom + ((*fTo-*fFrom)/2/max(1, *fStride))*max(1, *fStride)
	progress := *fOut + ".progress"
	seenClass := map[string]int{}
	stride := max(1, *fStride)
	// progress is stamped with the machine's clock read through the system call: Heartbeat is called from
	// inside synctest bubbles, where package time reports the simulated clock (a heartbeat after a jump of
	// 30 simulated years made every later "500 ms since the last one?" false, the driver's stall watchdog then
	// saw a worker without progress and the thorough tier of C08 ended with exit 2)
	lastProgress := int64(0)
	curIdx := 0
	Heartbeat = func() {
		if now := wallNanos(); now-lastProgress > 500e6 {
			_ = os.WriteFile(progress, []byte(fmt.Sprint(curIdx)), 0o644)
			lastProgress = now
		}
	}
	for idx := *fFrom; idx < *fTo; idx += stride {
		curIdx = idx
		if *fBudget > 0 && time.Since(start).Seconds() > *fBudget {
			w.CutShort = true
			break
		}
		if now := wallNanos(); RaceBuild || now-lastProgress > 500e6 {
			// the run in progress, for the parent: should the race detector end this process,
			// or should the code under test block for real (stall watchdog)
			_ = os.WriteFile(progress, []byte(fmt.Sprint(idx)), 0o644)
			lastProgress = now
		}
		plan, out := execOne(t, p, idx)
		w.LastIndex = idx
		w.Evaluations++
		if out.Nontrivial {
			w.Nontrivial++
			sigs.Add(out.CaseSig)
		}
		for _, s := range out.ModelStates {
			states.Add(s)
		}
		if out.Switches > 0 {
			scheds.Add(out.SchedSig)
		}
		for k := range out.SwitchPairs {
			pairs.Add(uint64(uint32(k[0]))<<32 | uint64(uint32(k[1])))
		}
		for k, v := range out.Faults {
			w.Faults[k] += v
		}
		for k, v := range out.Probes {
			w.Probes[k] += v
		}
		for k, v := range out.Observations {
			w.Observations[k] += v
		}
		w.Steps += out.Steps
		w.Switches += out.Switches
		w.SimTimeNs += float64(out.SimTimeNs)
		if *fHashEv > 0 && idx%*fHashEv == 0 {
			w.Hashes[fmt.Sprint(idx)] = fmt.Sprintf("%016x", out.Events.Sum())
			w.SHashes[fmt.Sprint(idx)] = fmt.Sprintf("%016x", out.Sched.Sum())
		}
		if first == nil {
			first = plan
		}
		if idx == mid {
			middle = plan
		}
		if longest == nil || plan.NumOps() > longest.NumOps() {
			longest = plan
		}
		if len(out.Violations) > 0 {
			w.ViolCount++
			newClass := false
			for _, c := range out.Classes() {
				w.ClassCounts[c]++
				if seenClass[c] < 2 {
					newClass = true
				}
				seenClass[c]++
			}
			if newClass && len(w.Violating) < *fMaxViol {
				w.Violating = append(w.Violating, ViolatingRun{Plan: plan, Violations: out.Violations})
			}
		}
	}
	for _, s := range []*Plan{first, middle, longest} {
		if s != nil {
			w.Samples = append(w.Samples, s)
		}
	}
	w.SiteHits = SiteHitsSnapshot()
	w.WallS = time.Since(start).Seconds()
	sigs.write(*fOut + ".sigs")
	states.write(*fOut + ".states")
	scheds.write(*fOut + ".scheds")
	pairs.write(*fOut + ".pairs")
	b, _ := json.Marshal(w)
	if err := os.WriteFile(*fOut+".json", b, 0o644); err != nil {
		fatal2("write: %v", err)
	}
}

// runMerge counts the distinct signatures over all workers of a batch.
func runMerge(t *testing.T) {
	res := map[string]any{}
	sampled := map[string]int{}
	inputs := *fInputs
	if strings.HasPrefix(inputs, "@") {
		b, err := os.ReadFile(inputs[1:])
		if err != nil {
			fatal2("read %s: %v", inputs[1:], err)
		}
		inputs = strings.ReplaceAll(string(b), "\n", ",")
	}
	for _, kind := range []string{"sigs", "states", "scheds", "pairs"} {
		all := newDistinctSet()
		for _, pre := range strings.Split(inputs, ",") {
			if pre == "" {
				continue
			}
			if _, err := os.Stat(pre + "." + kind); err != nil {
				continue
			}
			all.mergeFile(pre + "." + kind)
		}
		res[kind] = all.Estimate()
		if all.level > 0 {
			sampled[kind] = 1 << all.level
		}
	}
	res["sampled"] = sampled
	b, _ := json.Marshal(res)
	if err := os.WriteFile(*fOut, b, 0o644); err != nil {
		fatal2("write: %v", err)
	}
}

func loadPlan(path string) *Plan {
	b, err := os.ReadFile(path)
	if err != nil {
		fatal2("read plan: %v", err)
	}
	plan := &Plan{}
	if err := json.Unmarshal(b, plan); err != nil {
		fatal2("bad plan: %v", err)
	}
	return plan
}

// runRecord executes one run index from its seed and writes the plan
// (including the executed schedule) plus what was observed.
func runRecord(t *testing.T) {
	p := prop()
	var prelude []*Plan
	stride := max(1, *fStride)
	for k := *fPrelude; k >= 1; k-- {
		idx := *fFrom - k*stride
		if idx < 0 {
			continue
		}
		pre, _ := execOne(t, p, idx)
		prelude = append(prelude, pre)
	}
	plan, out := execOne(t, p, *fFrom)
	plan.Prelude = prelude
	vr := ViolatingRun{Plan: plan, Violations: out.Violations}
	b, _ := json.MarshalIndent(vr, "", " ")
	if err := os.WriteFile(*fOut, b, 0o644); err != nil {
		fatal2("write: %v", err)
	}
}

// runReplay executes a plan file. Exit 1 if the expected violation class (or,
// without an expectation, any violation) is observed, 0 if the run is clean.
func runReplay(t *testing.T) {
	plan := loadPlan(*fPlan)
	p, ok := registry[plan.Property]
	if !ok {
		fatal2("unknown property %q in plan", plan.Property)
	}
	warm(p)
	if RaceBuild {
		_ = os.WriteFile(*fOut+".progress", []byte(fmt.Sprint(plan.Index)), 0o644)
	}
	out := execWithPrelude(p, plan, &Ctx{Replay: true, T: t})
	want := ""
	if plan.Expect != nil {
		want = plan.Expect.Class
	}
	hit := false
	for _, v := range out.Violations {
		fmt.Printf("REPLAY-VIOLATION property=%s class=%s oracle=%s detail=%s\n", plan.Property, v.Class, v.Oracle, v.Detail)
		if want == "" || v.Class == want {
			hit = true
		}
	}
	fmt.Printf("REPLAY-EVENTS %016x\n", out.Events.Sum())
	if hit {
		fmt.Printf("REPLAY-REPRODUCED property=%s class=%s\n", plan.Property, want)
		simExit = 1
	} else if want != "" {
		fmt.Printf("REPLAY-CLEAN property=%s expected=%s\n", plan.Property, want)
	}
}

// reproduces executes a candidate plan and reports whether the wanted class
// is observed. With -sim.childbin every candidate runs in a fresh child
// process (needed for the race oracle, which reports a pair once per process).
func reproduces(t *testing.T, p Prop, plan *Plan, class string, tmp string) bool {
	if *fChild != "" {
		q := plan.Clone()
		q.Expect = &Expect{Class: class}
		path := tmp + ".cand.json"
		b, _ := json.Marshal(q)
		_ = os.WriteFile(path, b, 0o644)
		return childReproduces(path, class, tmp)
	}
	out := execWithPrelude(p, plan.Clone(), &Ctx{Replay: true, T: t})
	for _, v := range out.Violations {
		if v.Class == class {
			return true
		}
	}
	return false
}

func childReproduces(planPath, class, tmp string) bool {
	logp := tmp + ".childrace"
	matches, _ := filepathGlob(logp + "*")
	for _, m := range matches {
		_ = os.Remove(m)
	}
	cmd := exec.Command(*fChild, "-test.run", "^TestSim$", "-sim.mode", "replay", "-sim.plan", planPath, "-sim.sites", *fSites, "-sim.out", tmp+".child")
	cmd.Env = append(os.Environ(), "GORACE=halt_on_error=1 log_path="+logp)
	outb, _ := cmd.CombinedOutput()
	if strings.Contains(string(outb), "REPLAY-REPRODUCED") {
		return true
	}
	if cmd.ProcessState != nil && cmd.ProcessState.ExitCode() == 66 {
		matches, _ := filepathGlob(logp + "*")
		for _, m := range matches {
			b, _ := os.ReadFile(m)
			if c := RaceClassFromLog(string(b)); c == class {
				return true
			}
		}
	}
	return false
}

func runMinimise(t *testing.T) {
	plan := loadPlan(*fPlan)
	p, ok := registry[plan.Property]
	if !ok {
		fatal2("unknown property %q in plan", plan.Property)
	}
	if plan.Expect == nil || plan.Expect.Class == "" {
		fatal2("plan has no expected class")
	}
	warm(p)
	class := plan.Expect.Class
	tmp := *fOut + ".min"
	test := func(c *Plan) bool { return reproduces(t, p, c, class, tmp) }
	if !test(plan) {
		fmt.Printf("MINIMISE-NOT-REPRODUCED class=%s\n", class)
		simExit = 3
		return
	}
	deadline := time.Now().Add(time.Duration(max(10, int(*fBudget))) * time.Second)
	min := Minimise(plan, test, deadline)
	// final detail from an in-process execution when possible
	if *fChild == "" {
		out := execWithPrelude(p, min.Clone(), &Ctx{Replay: true, T: t})
		for _, v := range out.Violations {
			if v.Class == class {
				min.Expect = &Expect{Oracle: v.Oracle, Class: v.Class, Detail: v.Detail}
				break
			}
		}
	} else {
		min.Expect = plan.Expect
	}
	b, _ := json.MarshalIndent(min, "", " ")
	if err := os.WriteFile(*fOut, b, 0o644); err != nil {
		fatal2("write: %v", err)
	}
	fmt.Printf("MINIMISED ops %d -> %d, schedule %d -> %d\n", plan.NumOps(), min.NumOps(), len(plan.Schedule), len(min.Schedule))
}
