//go:build !race

package sim

const RaceBuild = false

func raceDisable() {}
func raceEnable()  {}
