package sim

import (
	"fmt"
	"strconv"
	"strings"
	"testing"
	"testing/synctest"
	"time"
	_ "time/tzdata" // named zones with daylight saving, available offline

	"github.com/pip-services3-gox/pip-services3-expressions-gox/calculator"
	"github.com/pip-services3-gox/pip-services3-expressions-gox/calculator/functions"
	"github.com/pip-services3-gox/pip-services3-expressions-gox/calculator/variables"
	"github.com/pip-services3-gox/pip-services3-expressions-gox/variants"
)

// C08 – built-in functions: CLOCK, RANDOMNESS, TIME-ZONE AND SEAM-CONTRACT
// CLAUSES ONLY (DESIGN §4.9). Each run executes inside a testing/synctest
// bubble: time.Now() is the bubble's fake clock, which only the scheduler
// advances (jumps of 0 .. 30 years between and inside evaluations); the global
// PRNG is seeded (GODEBUG=randautoseed=0); time.Local is a per-run fixed zone.
// That Min, Sum, Round ... compute what their names denote is NOT decided here.

type propC08 struct{}

func init() { Register(propC08{}) }

func (propC08) ID() string { return "C08" }

var c08Zones = []string{"America/New_York", "Europe/Berlin", "Australia/Lord_Howe", "America/Sao_Paulo", "Pacific/Apia", "Asia/Kolkata"}

// c08Days are civil dates on or next to daylight-saving transitions of those zones.
var c08Days = [][3]int{{2021, 3, 14}, {2021, 11, 7}, {1987, 4, 5}, {2021, 3, 28}, {2021, 10, 31}, {2021, 4, 4}, {2021, 10, 3},
	{2018, 11, 4}, {2018, 2, 18}, {2011, 12, 30}, {2011, 12, 29}, {2011, 12, 31}, {2021, 3, 13}, {2021, 3, 15}}

var c08Names = []string{"Ticks", "TimeSpan", "Now", "Date", "DayOfWeek", "Min", "Max", "Sum", "If", "Choose", "E", "Pi", "Rnd", "Random",
	"Abs", "Acos", "Asin", "Atan", "Exp", "Log", "Ln", "Log10", "Ceil", "Ceiling", "Floor", "Round", "Trunc", "Truncate", "Cos", "Sin", "Tan",
	"Sqr", "Sqrt", "Empty", "Null", "Contains", "Array"}

func c08Arg(r *Rand) Val {
	switch r.Intn(12) {
	case 0:
		return VNull()
	case 1:
		return VInt(r.PickInt([]int{0, 1, -1, 2, 3, 7, 1975, -2147483648, 2147483647}))
	case 2:
		return VLong([]int64{0, 1, -1, 86400, 1 << 40, -1 << 62}[r.Intn(6)])
	case 3:
		return VFloat([]float32{0, 0.5, -1.5, 3.25, 1e30}[r.Intn(5)])
	case 4:
		return VDouble([]float64{0, 0.5, -0.5, 1, 2.75, 1e300, -1e-300}[r.Intn(7)])
	case 5:
		return VStr(r.Pick([]string{"", "a", "abc", "12", "1.5", "true", "x y", "2020-01-02T03:04:05Z"}))
	case 6:
		return VBool(r.Bool(0.5))
	case 7:
		return VTime(time.Unix(int64(r.Intn(2_000_000_000)), 0).UTC())
	case 8:
		return VSpan(time.Duration(r.Intn(100000)) * time.Millisecond)
	case 9:
		return VArr(VInt(1), VStr("a"))
	default:
		return VInt(r.Range(-3, 12))
	}
}

func c08Literal(r *Rand) string {
	switch r.Intn(7) {
	case 0:
		return fmt.Sprint(r.Range(0, 20))
	case 1:
		return r.Pick([]string{"0.5", "1.5", "2.25", "100.0"})
	case 2:
		return r.Pick([]string{"'a'", "'abc'", "''", "'12'"})
	case 3:
		return r.Pick([]string{"TRUE", "false"})
	case 4:
		return "-" + fmt.Sprint(r.Range(1, 9))
	case 5:
		return "Array(1, 2)"
	}
	return fmt.Sprint(r.Range(0, 3))
}

// c08CallText is a call of a built-in function with literal arguments. Clock
// and random functions are left out: their results legitimately differ from
// one call to the next, and outside a synctest bubble the clock is the real one.
func c08CallText(r *Rand) string {
	name := r.Pick(c08Names)
	for name == "Now" || name == "Ticks" || name == "Rnd" || name == "Random" {
		name = r.Pick(c08Names)
	}
	name = flipCase(r, name)
	n := r.Range(0, 8)
	if r.Bool(0.6) {
		n = r.Range(0, 3)
	}
	args := make([]string, n)
	for i := range args {
		args[i] = c08Literal(r)
	}
	return name + "(" + strings.Join(args, ", ") + ")"
}

func (propC08) Gen(r *Rand) *Plan {
	p := &Plan{Config: map[string]string{}}
	p.Config["zone"] = fmt.Sprint(r.Range(-12*4, 14*4) * 900) // quarter-hour offsets -12h .. +14h
	if r.Bool(0.3) {
		// a real zone with daylight saving (and Lord Howe's half-hour shift, Apia's skipped day)
		p.Config["zone"] = r.Pick(c08Zones)
	}
	p.Config["ops"] = r.Pick([]string{"unsafe", "unsafe", "safe"})
	ntasks := r.Range(1, 3)
	if r.Bool(0.006) {
		// volume: very many draws in one operation, alone in its run (a draw outside [0,1) may be
		// one in tens of millions)
		p.Tasks = []TaskPlan{{Ops: []Op{{Op: "rndbulk", S: r.Pick([]string{"Rnd", "Random"}), J: 600_000}}}}
		p.Policy = "serial"
		return p
	}
	for t := 0; t < ntasks; t++ {
		tp := TaskPlan{}
		for i, n := 0, r.Range(1, 6); i < n; i++ {

			if r.Bool(0.05) {
				// someone else customises a function collection of its own: remove an entry by position, by name, or clear it
				tp.Ops = append(tp.Ops, Op{Op: "foreign", I: r.Intn(37), J: r.Intn(5), S: r.Pick(c08Names)})
				continue
			}
			switch r.Weighted([]int{4, 3, 3, 4, 2, 8, 1}) {
			case 0:
				tp.Ops = append(tp.Ops, Op{Op: "now", S: flipCase(r, "Now"), I: r.Intn(2)})
			case 1:
				tp.Ops = append(tp.Ops, Op{Op: "ticks", S: flipCase(r, "Ticks"), I: r.Intn(2)})
			case 2:
				tp.Ops = append(tp.Ops, Op{Op: "rnd", S: flipCase(r, r.Pick([]string{"Rnd", "Random"})), I: r.Intn(2), J: r.Range(1, 5)})
			case 3:
				y, m, d := r.Range(1900, 2100), r.Range(1, 12), r.Range(1, 28)
				if r.Bool(0.4) {
					day := c08Days[r.Intn(len(c08Days))]
					y, m, d = day[0], day[1], day[2]
				}
				vs := []Val{VInt(y), VInt(m), VInt(d), VInt(r.Range(0, 23)), VInt(r.Range(0, 59)), VInt(r.Range(0, 59))}
				tp.Ops = append(tp.Ops, Op{Op: "date", S: flipCase(r, "Date"), I: r.Intn(2), Vs: vs[:r.PickInt([]int{3, 3, 4, 5, 6, 6})]})
			case 4:
				y, m, d := r.Range(1900, 2100), r.Range(1, 12), r.Range(1, 28)
				if r.Bool(0.4) {
					day := c08Days[r.Intn(len(c08Days))]
					y, m, d = day[0], day[1], day[2]
				}
				tp.Ops = append(tp.Ops, Op{Op: "dow", S: flipCase(r, "DayOfWeek"), I: r.Intn(2), Vs: []Val{VInt(y), VInt(m), VInt(d)}})
			case 5:
				n := r.Range(0, 8)
				if r.Bool(0.6) {
					n = r.Range(0, 3)
				}
				vs := make([]Val, n)
				for j := range vs {
					vs[j] = c08Arg(r)
				}
				name := r.Pick(c08Names)
				via := r.Intn(2)
				if name == "Null" {
					via = 0 // NULL is a keyword: the function cannot be reached through an expression
				}
				tp.Ops = append(tp.Ops, Op{Op: "call", S: flipCase(r, name), I: via, Vs: vs})
			case 6:
				tp.Ops = append(tp.Ops, Op{Op: "panicfn", I: r.Intn(2), J: r.Intn(1 << 16)})
			}
		}
		p.Tasks = append(p.Tasks, tp)
	}
	p.Policy = Policies[r.Intn(len(Policies)-1)]
	return p
}

type c08Res struct {
	res      *variants.Variant
	err      error
	panicV   any
	t0, t1   time.Time
	found    bool
	done     bool
	extra    []*variants.Variant // further draws (rnd)
	extraErr []error
}

// c08Weekday: day of week of a civil date (Sakamoto), 0 = Sunday.
func c08Weekday(y, m, d int) int {
	t := []int{0, 3, 2, 5, 0, 3, 5, 1, 4, 6, 2, 4}
	if m < 3 {
		y--
	}
	return ((y+y/4-y/100+y/400+t[m-1]+d)%7 + 7) % 7
}

func (propC08) Exec(p *Plan, x *Ctx) *Outcome {
	out := NewOutcome()
	if x.T == nil {
		panic("C08 needs a *testing.T for the synctest bubble")
	}
	synctest.Test(x.T, func(t *testing.T) { c08Run(p, x, out) })
	return out
}

func c08Run(p *Plan, x *Ctx, out *Outcome) {
	run := NewRun(0)
	zoneOff, zerr := strconv.Atoi(p.Cfg("zone", "0"))
	loc := time.FixedZone("SIM", zoneOff)
	namedZone := false
	if zerr != nil {
		if l, err := time.LoadLocation(p.Cfg("zone", "UTC")); err == nil {
			loc, namedZone = l, true
		}
	}
	oldLocal := time.Local
	time.Local = loc
	defer func() { time.Local = oldLocal }()
	ops := opsManager(p.Cfg("ops", "unsafe"))
	start := time.Now()

	results := make([][]c08Res, len(p.Tasks))
	for ti := range p.Tasks {
		ti := ti
		tp := p.Tasks[ti]
		results[ti] = make([]c08Res, len(tp.Ops))
		run.AddTask(func() {
			calc := calculator.NewExpressionCalculator()
			calc.SetVariantOperations(ops)
			funcs := functions.NewDefaultFunctionCollection()
			// a function only this task's collection has; additions to other collections must not show here
			ownMarker := 1000 + ti
			funcs.Add(functions.NewDelegatedFunction("Own", func(params []*variants.Variant, o variants.IVariantOperations) (*variants.Variant, error) {
				return variants.VariantFromInteger(ownMarker), nil
			}))
			ownLen := funcs.Length() + 1 // with Boom, added next
			boomK := 0 // selects what the delegate panics with (texts, errors, values that are awkward to report)
			funcs.Add(functions.NewDelegatedFunction("Boom", func(params []*variants.Variant, o variants.IVariantOperations) (*variants.Variant, error) {
				panic(PanicValue(boomK))
			}))
			// call evaluates name(args) directly through the IFunction seam or through an expression
			call := func(r *c08Res, name string, args []Val, viaExpr bool) {
				defer func() {
					if pv := recover(); pv != nil {
						r.panicV = pv
					}
					r.done = true
				}()
				run.ResetOpSteps()
				if !viaExpr {
					f := funcs.FindByName(name)
					r.found = f != nil
					if f == nil {
						return
					}
					params := make([]*variants.Variant, len(args))
					for i := range args {
						params[i] = args[i].ToVariant()
					}
					r.t0 = time.Now()
					r.res, r.err = f.Calculate(params, ops)
					r.t1 = time.Now()
					return
				}
				r.found = true
				vc := variables.NewVariableCollection()
				names := make([]string, len(args))
				for i := range args {
					names[i] = fmt.Sprintf("p%d", i)
					vc.Add(variables.NewVariable(names[i], args[i].ToVariant()))
				}
				if err := calc.SetExpression(name + "(" + strings.Join(names, ", ") + ")"); err != nil {
					r.err = err
					r.t0, r.t1 = time.Now(), time.Now()
					return
				}
				r.t0 = time.Now()
				r.res, r.err = calc.EvaluateUsingVariablesAndFunctions(vc, funcs)
				r.t1 = time.Now()
			}
			for i, o := range tp.Ops {
				r := &results[ti][i]
				switch o.Op {
				case "dow":
					// DayOfWeek(Date(y, m, d)) in the run's zone against the library's own DayOfWeek of
					// noon UTC of that civil date: the numbering of the days is the library's business,
					// that the local zone is used is what is decided here
					var d, ref c08Res
					call(&d, "Date", o.Vs, false)
					if d.res == nil {
						*r = d
						continue
					}
					call(r, o.S, []Val{FromVariant(d.res)}, o.I == 1)
					if len(o.Vs) >= 3 {
						// a civil date may not exist in a zone (Apia skipped 2011-12-30, midnight is skipped where
						// daylight saving starts at 00:00): the standard library's reading of it in the run's zone counts
						cy, cm, cd := time.Date(int(o.Vs[0].I), time.Month(o.Vs[1].I), int(o.Vs[2].I), 0, 0, 0, 0, time.Local).Date()
						noon := time.Date(cy, cm, cd, 12, 0, 0, 0, time.UTC)
						call(&ref, "DayOfWeek", []Val{VTime(noon)}, false)
						r.extra = []*variants.Variant{ref.res}
						r.extraErr = []error{ref.err}
					}
				case "now", "ticks", "date", "call":
					args := o.Vs
					if o.Op == "now" || o.Op == "ticks" {
						args = nil
					}
					call(r, o.S, args, o.I == 1)
				case "rnd":
					call(r, o.S, nil, o.I == 1)
					for k := 1; k < o.J && k < 8; k++ {
						var e c08Res
						call(&e, o.S, nil, o.I == 1)
						r.extra = append(r.extra, e.res)
						r.extraErr = append(r.extraErr, e.err)
					}
				case "rndbulk":
					f := funcs.FindByName(o.S)
					r.found = f != nil
					if f == nil {
						r.done = true
						continue
					}
					n := o.J
					if x.Replay {
						// replays draw up to 400 times as many values (stopping at the first bad one): should the
						// code under test have brought its own, unseeded random source, reproduction is statistical
						n *= 400
					}
					func() {
						defer func() {
							if pv := recover(); pv != nil {
								r.panicV = pv
							}
							r.done = true
						}()
						for k := 0; k < n; k++ {
							if k%4096 == 0 {
								run.ResetOpSteps()
								Heartbeat()
							}
							v, err := f.Calculate(nil, ops)
							r.res, r.err = v, err
							if err != nil || v == nil || (v.Type() != variants.Float && v.Type() != variants.Double) {
								break
							}
							if fv := c08AsFloat64(v); !(fv >= 0 && fv < 1) {
								r.extra = append(r.extra, v)
								break
							}
						}
					}()
				case "foreign":
					func() {
						defer func() {
							if pv := recover(); pv != nil {
								r.panicV = pv
							}
							r.done = true
						}()
						other := functions.NewDefaultFunctionCollection()
						switch o.J % 5 {
						case 0:
							if other.Length() > 0 {
								other.Remove(o.I % other.Length())
							}
						case 1:
							other.RemoveByName(o.S)
						case 2:
							other.Clear()
						default:
							// additions: one or two functions of its own, one of them under a name this task uses too
							other.Add(functions.NewDelegatedFunction("Tag", func(params []*variants.Variant, o variants.IVariantOperations) (*variants.Variant, error) {
								return variants.VariantFromInteger(-5), nil
							}))
							if o.J%5 == 4 {
								other.Add(functions.NewDelegatedFunction("own", func(params []*variants.Variant, o variants.IVariantOperations) (*variants.Variant, error) {
									return variants.VariantFromInteger(-6), nil
								}))
							}
						}
						// every default name must still be found in this task's collection and in a new one
						r.found = true
						fresh := functions.NewDefaultFunctionCollection()
						for _, n := range c08Names {
							if funcs.FindByName(n) == nil || fresh.FindByName(strings.ToUpper(n)) == nil {
								r.found = false
								r.extraErr = append(r.extraErr, fmt.Errorf("%s", n))
							}
						}
						// ... and what this task added to its own collection is still there, still its own, and nothing else came in
						if own := funcs.FindByName("Own"); own == nil {
							r.found = false
							r.extraErr = append(r.extraErr, fmt.Errorf("Own (added by this task) is gone"))
						} else if v, err := own.Calculate(nil, ops); err != nil || v == nil || v.Type() != variants.Integer || v.AsInteger() != ownMarker {
							r.found = false
							r.extraErr = append(r.extraErr, fmt.Errorf("Own (added by this task) is now another function"))
						}
						if funcs.FindByName("Boom") == nil {
							r.found = false
							r.extraErr = append(r.extraErr, fmt.Errorf("Boom (added by this task) is gone"))
						}
						if funcs.FindByName("Tag") != nil || funcs.Length() != ownLen {
							r.found = false
							r.extraErr = append(r.extraErr, fmt.Errorf("a function added to another collection shows in this one (length %d, was %d)", funcs.Length(), ownLen))
						}
						r.res = variants.VariantFromInteger(fresh.Length())
					}()
				case "panicfn":
					boomK = o.J
					call(r, "boom", nil, o.I == 1)
				default:
					r.done = false
				}
			}
		})
	}
	var ch Chooser
	if x.Replay || len(p.Schedule) > 0 || x.R == nil {
		ch = &ReplayChooser{Sched: p.Schedule}
	} else {
		pc := NewPolicyChooser(x.R, p.Policy, len(p.Tasks), true)
		if namedZone {
			pc.Zone = loc
		}
		ch = pc
	}
	if p.Cfg("coarse", "") == "on" {
		run.SetCoarse(true)
	}
	run.Schedule(ch)
	if !x.Replay && len(p.Schedule) == 0 {
		p.Schedule = run.Executed
	}
	for _, e := range run.Executed {
		out.Sched.Int(int64(e.Task)).Int(e.Quantum).Int(e.JumpNs)
	}
	for _, t := range run.tasks {
		if t.PanicVal != nil {
			out.Violate("no-panic", "C08/harness-task-panic", "task body panicked: %v", t.PanicVal)
		}
	}

	clockDependent := 0
	for ti, tp := range p.Tasks {
		for i, o := range tp.Ops {
			r := results[ti][i]
			if !r.done {
				continue
			}
			desc := "nil"
			if r.res != nil {
				desc = FromVariant(r.res).String()
			}
			evDesc := desc
			if ln := strings.ToLower(o.S); ln == "rnd" || ln == "random" {
				// the value depends on how many draws the process made before: not part of the event log
				evDesc = "<random>"
			} else if ln == "now" || ln == "ticks" {
				// the value is the simulated time of the call, which depends on where in the schedule (counted in
				// yield steps) the clock jumps landed; the oracle checks it against the call interval instead
				evDesc = "<clock>"
			}
			out.Event("t%d.%d %s %s err=%s panic=%v", ti, i, o.Op, evDesc, ErrCode(r.err), r.panicV)
			where := fmt.Sprintf("task %d op %d: %s %s(%v) via %s", ti, i, o.Op, o.S, o.Vs, map[bool]string{true: "expression", false: "IFunction.Calculate"}[o.I == 1])
			lname := strings.ToLower(o.S)
			if o.Op == "panicfn" {
				lname = "boom"
			}
			if sb, ok := r.panicV.(StepBudgetExceeded); ok {
				out.Violate("liveness", "C08/step-budget", "%s: %v", where, sb)
				continue
			}
			if o.Op == "foreign" {
				out.Probes["foreign_collection_customised"]++
				if r.panicV != nil {
					out.Violate("seam-contract", "C08/panic/foreign-collection", "%s: panicked: %v", where, r.panicV)
				} else if !r.found || (r.res != nil && r.res.AsInteger() != len(c08Names)) {
					out.Violate("lookup", "C08/not-found-by-name", "%s: after another default collection was modified, default functions %v are missing from this task's or from a new collection (a new collection holds %v entries)", where, r.extraErr, FromVariant(r.res))
				}
				continue
			}
			if !r.found {
				out.Violate("lookup", "C08/not-found-by-name", "%s: the function was not found under this letter case", where)
				continue
			}
			out.Probes["seam_calls"]++
			// seam contract: exactly one of result / error, never a panic
			switch {
			case r.panicV != nil:
				out.Violate("seam-contract", "C08/panic/"+lname, "%s: panicked: %v", where, r.panicV)
				continue
			case r.res == nil && r.err == nil:
				out.Violate("seam-contract", "C08/neither/"+lname, "%s: returned neither a result nor an error", where)
				continue
			case r.res != nil && r.err != nil:
				out.Violate("seam-contract", "C08/both/"+lname, "%s: returned both %s and error %v", where, desc, r.err)
				continue
			}
			switch o.Op {
			case "panicfn":
				if r.err == nil {
					out.Violate("seam-contract", "C08/delegate-panic-not-an-error", "%s: a panicking delegate produced %s and no error", where, desc)
				}
				out.Probes["delegate_panic"]++
			case "now":
				clockDependent++
				if r.err != nil || r.res.Type() != variants.DateTime {
					out.Violate("clock", "C08/now/not-a-datetime", "%s: got %s err %v", where, desc, r.err)
					break
				}
				v := r.res.AsDateTime()
				if v.Before(r.t0) || v.After(r.t1) {
					out.Violate("clock", "C08/now/outside-call-interval", "%s: Now() = %s, simulated clock was %s at the call and %s at the return", where, v.UTC().Format(time.RFC3339Nano), r.t0.UTC().Format(time.RFC3339Nano), r.t1.UTC().Format(time.RFC3339Nano))
				}
				if r.t1.After(r.t0) {
					out.Probes["clock_jump_inside_evaluation"]++
				}
				if namedZone {
					if start, _ := r.t0.In(loc).ZoneBounds(); !start.IsZero() && r.t0.Sub(start) < 2*time.Hour {
						out.Probes["now_within_two_hours_after_a_zone_transition"]++
					}
				}
				if r.t0.Sub(start) > 24*time.Hour {
					out.Probes["now_after_long_jump"]++
				}
			case "ticks":
				clockDependent++
				if r.err != nil {
					out.Violate("clock", "C08/ticks/error", "%s: %v", where, r.err)
					break
				}
				dt, err := ops.Convert(r.res, variants.DateTime)
				if p.Cfg("ops", "unsafe") == "safe" {
					// the type-safe manager has no long -> date-time conversion: use the other manager's
					dt, err = opsManager("unsafe").Convert(r.res, variants.DateTime)
				}
				if err != nil || dt == nil || dt.Type() != variants.DateTime {
					out.Violate("clock", "C08/ticks/not-convertible", "%s: Ticks() = %s cannot be converted to a date-time: %v", where, desc, err)
					break
				}
				v := dt.AsDateTime()
				if v.Before(r.t0.Truncate(time.Second)) || v.After(r.t1) {
					out.Violate("clock", "C08/ticks/outside-call-interval", "%s: Ticks() = %s = %s, simulated clock was %s .. %s", where, desc, v.UTC().Format(time.RFC3339), r.t0.UTC().Format(time.RFC3339Nano), r.t1.UTC().Format(time.RFC3339Nano))
				}
			case "rndbulk":
				out.Probes["rnd_bulk_ops"]++
				if r.err != nil || (r.res.Type() != variants.Float && r.res.Type() != variants.Double) {
					out.Violate("random", "C08/rnd/not-a-float", "%s: %v err %v", where, desc, r.err)
					break
				}
				if len(r.extra) > 0 {
					out.Violate("random", "C08/rnd/out-of-range", "%s: among up to %d draws one was %v, not in [0,1)", where, o.J, c08AsFloat64(r.extra[0]))
				}
			case "rnd":
				all := append([]*variants.Variant{r.res}, r.extra...)
				errs := append([]error{r.err}, r.extraErr...)
				for k, v := range all {
					if errs[k] != nil || v == nil || (v.Type() != variants.Float && v.Type() != variants.Double) {
						out.Violate("random", "C08/rnd/not-a-float", "%s draw %d: %v err %v", where, k, FromVariant(v), errs[k])
						break
					}
					if f := c08AsFloat64(v); !(f >= 0 && f < 1) {
						out.Violate("random", "C08/rnd/out-of-range", "%s draw %d: %v is not in [0,1)", where, k, f)
						break
					}
					out.Probes["rnd_draws"]++
				}
			case "date":
				if r.err != nil || r.res.Type() != variants.DateTime {
					out.Violate("zone", "C08/date/not-a-datetime", "%s: got %s err %v", where, desc, r.err)
					break
				}
				want := []int{0, 1, 1, 0, 0, 0}
				for k := range o.Vs {
					if k < 6 {
						want[k] = int(o.Vs[k].I)
					}
				}
				v := r.res.AsDateTime().In(loc)
				got := []int{v.Year(), int(v.Month()), v.Day(), v.Hour(), v.Minute(), v.Second()}
				if namedZone {
					// in a zone with daylight saving some civil times do not exist or exist twice: the reference
					// is the standard library's reading of these civil fields in this zone
					ref := time.Date(want[0], time.Month(want[1]), want[2], want[3], want[4], want[5], 0, loc)
					if !r.res.AsDateTime().Equal(ref) {
						out.Violate("zone", "C08/date/civil-fields", "%s: in zone %s the result is %s, the civil time %v in that zone is %s", where, loc, v.Format(time.RFC3339), want, ref.Format(time.RFC3339))
					}
					out.Probes["date_in_dst_zone"]++
					clockDependent++
				} else if fmt.Sprint(got) != fmt.Sprint(want) {
					out.Violate("zone", "C08/date/civil-fields", "%s: in the run's zone (UTC%+d s) the result reads %v, the arguments were %v", where, zoneOff, got, want)
				}
				if zoneOff != 0 {
					out.Probes["date_in_non_utc_zone"]++
					clockDependent++
				}
			case "dow":
				if r.err != nil || r.res == nil {
					out.Violate("zone", "C08/dayofweek/error", "%s: got %s err %v", where, desc, r.err)
					break
				}
				if len(r.extra) == 1 && r.extra[0] != nil && r.extraErr[0] == nil {
					if want := FromVariant(r.extra[0]); !FromVariant(r.res).Equal(want) {
						out.Violate("zone", "C08/dayofweek/wrong-day", "%s: DayOfWeek(Date(%d,%d,%d)) = %s in the run's zone %s, but DayOfWeek of noon UTC of that civil date is %s", where, o.Vs[0].I, o.Vs[1].I, o.Vs[2].I, desc, loc, want)
					}
				}
				if zoneOff != 0 || namedZone {
					clockDependent++
				}
			case "call":
				out.Probes["fn_"+lname]++
			}
		}
	}
	out.Steps = run.Steps()
	out.Switches = run.Switches()
	out.SwitchPairs = run.SwitchPairs()
	out.SchedSig = ScheduleSig(run.Executed)
	out.SimTimeNs = int64(run.SimTime)
	out.Nontrivial = clockDependent > 0 || out.Probes["seam_calls"] > 0
	out.State(zoneOff, len(p.Tasks), clockDependent)
	out.CaseSig = NewHasher().Int(int64(HashJSON(struct {
		T []TaskPlan
		C map[string]string
	}{p.Tasks, p.Config}))).Int(int64(out.SchedSig)).Sum()
}

func c08AsFloat64(v *variants.Variant) float64 {
	if v.Type() == variants.Double {
		return v.AsDouble()
	}
	return float64(v.AsFloat())
}
