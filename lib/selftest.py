"""Self-tests of the simulator: determinism, null workload under the race build, mutants."""
import glob, json, os, shutil, subprocess, sys, tempfile, time

VERIF = os.path.dirname(os.path.dirname(os.path.abspath(__file__)))


def determinism(check, props=None, runs=240, nprocs=3):
    """Every property: run indices 0..runs-1 in nprocs fresh processes cycling through GOMAXPROCS 1, 4, 16 (plus one
    race-built process for C19); the per-run event-log hashes must agree."""
    from props import PROPS
    b = check.Build(race=True)
    bad = 0
    try:
        for prop in (props or sorted(PROPS)):
            extra_sets = [[]]
            if prop == "C03":
                extra_sets = [["-sim.faults", "on"], ["-sim.faults", "off"]]
            for extra in extra_sets:
                results = []
                procs = []
                for i, gmp in enumerate((["1", "4", "16"] * ((nprocs + 2) // 3))[:nprocs]):
                    out = os.path.join(b.dir, "det-%s-%d" % (prop, i))
                    cmd = check.worker_cmd(b.plain_bin, b.sites, "batch", prop, 1, out,
                                           ["-sim.from", "0", "-sim.to", str(runs), "-sim.hashevery", "1"] + extra)
                    procs.append((check.spawn(cmd, {"GOMAXPROCS": gmp}, open(out + ".log", "w")), out))
                if PROPS[prop].get("race"):
                    out = os.path.join(b.dir, "det-%s-race" % prop)
                    cmd = check.worker_cmd(b.race_bin, b.sites, "batch", prop, 1, out,
                                           ["-sim.from", "0", "-sim.to", str(runs), "-sim.hashevery", "1"] + extra)
                    procs.append((check.spawn(cmd, {"GOMAXPROCS": "4", "GORACE": "halt_on_error=1 log_path=%s.race" % out}, open(out + ".log", "w")), out))
                for p, out in procs:
                    rc = p.wait(timeout=3600)
                    if rc != 0:
                        print("determinism: worker failed rc=%s: %s" % (rc, open(out + ".log").read()[-1500:]))
                        return 2
                    wj = json.load(open(out + ".json"))
                    # on the unchanged tree runs are independent: outcome AND schedule hashes must agree
                    results.append({k: v + ":" + (wj.get("shashes") or {}).get(k, "") for k, v in wj["hashes"].items()})
                ref = results[0]
                same = all(r == ref for r in results[1:])
                print("determinism %s %s: %d runs x %d processes (GOMAXPROCS 1/4/16%s): %s" % (
                    prop, " ".join(extra), len(ref), len(results), " + race build" if len(results) > nprocs else "",
                    "identical" if same else "DIFFERENT"))
                if not same:
                    bad += 1
                    for k in sorted(ref, key=int):
                        vals = [r.get(k) for r in results]
                        if len(set(vals)) > 1:
                            print("   run %s: %s" % (k, vals))
                            break
    finally:
        b.cleanup()
    return 2 if bad else 0


def null_workload(check, runs=3000):
    """Tasks that never call the library, under the race build: zero reports expected."""
    b = check.Build(race=True)
    try:
        out = os.path.join(b.dir, "null")
        cmd = check.worker_cmd(b.race_bin, b.sites, "batch", "NULL", 1, out, ["-sim.from", "0", "-sim.to", str(runs)])
        p = check.spawn(cmd, {"GORACE": "halt_on_error=1 log_path=%s.race" % out}, open(out + ".log", "w"))
        rc = p.wait(timeout=1800)
        logs = glob.glob(out + ".race*")
        if rc != 0 or logs:
            print("null workload: rc=%s, %d race logs" % (rc, len(logs)))
            for f in logs[:1]:
                print(open(f).read()[:3000])
            print(open(out + ".log").read()[-1500:])
            return 2
        w = json.load(open(out + ".json"))
        print("null workload: %d runs, %d switches, race build, zero reports" % (w["evaluations"], w["switches"]))
        return 0
    finally:
        b.cleanup()


def mutants(check, only=None, tier="quick"):
    """Applies every patch of mutants/ to a scratch clone of /repo; the check of each named property must report a violation
    and its replay must reproduce (check does that itself before printing VIOLATION)."""
    idx = json.load(open(os.path.join(VERIF, "mutants", "INDEX.json")))
    return run_changes(check, idx, only, tier, os.path.join(VERIF, "mutants", "LAST_RUN.json"))


def seeded(check, only=None, tier="quick"):
    """The independently written changes under seeded/: each must be reported by the check of its property."""
    idx = []
    for d in sorted(glob.glob(os.path.join(VERIF, "seeded", "*"))):
        meta = os.path.join(d, "meta.json")
        if os.path.exists(meta):
            mj = json.load(open(meta))
            if mj.get("known_limit"):
                print("seeded %s: recorded as a known limit of the check (not run)" % os.path.basename(d))
                continue
            idx.append({"name": os.path.basename(d), "patch": os.path.join(d, "patch.diff"), "props": [mj["property"]]})
    return run_changes(check, idx, only, tier, os.path.join(VERIF, "seeded", "LAST_RUN.json"))


def benign(check, only=None, tier="quick"):
    """The property-preserving changes under benign/: every named check must stay silent (exit 0)."""
    bad = 0
    rows = []
    for d in sorted(glob.glob(os.path.join(VERIF, "benign", "*"))):
        meta = os.path.join(d, "meta.json")
        name = os.path.basename(d)
        if not os.path.exists(meta) or (only and not any(o in name for o in only)):
            continue
        props = sorted(json.load(open(meta)).get("checks", {}))
        scratch = tempfile.mkdtemp(prefix="verif-benign-")
        try:
            repo = os.path.join(scratch, "repo")
            subprocess.run(["git", "clone", "-q", check.REPO, repo], check=True)
            r = subprocess.run(["git", "-C", repo, "apply", os.path.join(d, "patch.diff")], capture_output=True, text=True)
            if r.returncode != 0:
                print("benign %s: does not apply to the current tree (skipped)" % name)
                continue
            for prop in props:
                e = dict(os.environ)
                e.update(VERIF_REPO=repo, VERIF_EVIDENCE_DIR=os.path.join(scratch, "evidence"), VERIF_REPLAY_DIR=os.path.join(scratch, "replays"))
                t0 = time.time()
                p = subprocess.run([os.path.join(VERIF, "check"), prop, tier], env=e, capture_output=True, text=True)
                ok = p.returncode == 0
                rows.append(dict(change=name, property=prop, exit=p.returncode, seconds=round(time.time() - t0, 1)))
                print("benign %-16s %s: %s in %.0fs" % (name, prop, "quiet" if ok else "EXIT %d" % p.returncode, time.time() - t0))
                if not ok:
                    bad += 1
                    print(p.stdout[-1200:], p.stderr[-800:])
        finally:
            shutil.rmtree(scratch, ignore_errors=True)
    json.dump(rows, open(os.path.join(VERIF, "benign", "LAST_RUN.json"), "w"), indent=1)
    return 2 if bad else 0


def run_changes(check, idx, only, tier, report):
    failed = 0
    rows = []
    for m in idx:
        if only and not any(o in m["name"] for o in only):
            continue
        scratch = tempfile.mkdtemp(prefix="verif-mutant-")
        try:
            repo = os.path.join(scratch, "repo")
            subprocess.run(["git", "clone", "-q", check.REPO, repo], check=True)
            if "patch" in m:
                r = subprocess.run(["git", "-C", repo, "apply", os.path.join(VERIF, "mutants", m["patch"])], capture_output=True, text=True)
            else:
                shas = m["revert"] if isinstance(m["revert"], list) else [m["revert"]]
                for sha in shas:
                    r = subprocess.run(["git", "-C", repo, "revert", "-n", sha], capture_output=True, text=True)
                    if r.returncode != 0:
                        break
            if r.returncode != 0:
                print("mutant %s: does not apply: %s" % (m["name"], (r.stderr or r.stdout)[:300]))
                failed += 1
                continue
            env = check.goenv()
            t = subprocess.run(["go", "test", "-vet=off", "-count=1", "./test/..."], cwd=repo, env=env, capture_output=True, text=True)
            tests_pass = t.returncode == 0
            for prop in m["props"]:
                e = dict(os.environ)
                e.update(VERIF_REPO=repo, VERIF_EVIDENCE_DIR=os.path.join(scratch, "evidence"), VERIF_REPLAY_DIR=os.path.join(scratch, "replays"))
                t0 = time.time()
                p = subprocess.run([os.path.join(VERIF, "check"), prop, tier], env=e, capture_output=True, text=True)
                caught = p.returncode == 1 and "VIOLATION property=%s" % prop in p.stdout
                classes = [l.split(": ", 1)[1] for l in p.stdout.splitlines() if l.startswith("violation class:")]
                rows.append((m["name"], prop, tests_pass, caught, classes, round(time.time() - t0, 1)))
                print("mutant %-42s %s: repo tests %s, %s in %.0fs %s" % (m["name"], prop, "pass" if tests_pass else "FAIL",
                                                                         "CAUGHT" if caught else "MISSED (rc=%d)" % p.returncode, time.time() - t0, classes[:3]))
                if not caught:
                    failed += 1
                    print(p.stdout[-800:], p.stderr[-800:])
        finally:
            shutil.rmtree(scratch, ignore_errors=True)
    json.dump([dict(mutant=r[0], property=r[1], repo_tests_pass=r[2], caught=r[3], classes=r[4], seconds=r[5]) for r in rows],
              open(report, "w"), indent=1)
    return 2 if failed else 0


def main(argv, check):
    if argv[0] == "selftest-determinism":
        args = argv[1:]
        runs, nprocs = 240, 3
        if "--procs" in args:
            k = args.index("--procs")
            nprocs = int(args[k + 1])
            del args[k:k + 2]
        if "--runs" in args:
            k = args.index("--runs")
            runs = int(args[k + 1])
            del args[k:k + 2]
        return determinism(check, args or None, runs=runs, nprocs=nprocs)
    if argv[0] == "selftest-null":
        return null_workload(check)
    if argv[0] == "selftest-mutants":
        return mutants(check, argv[1:] or None)
    if argv[0] == "selftest-seeded":
        return seeded(check, argv[1:] or None)
    if argv[0] == "selftest-benign":
        return benign(check, argv[1:] or None)
    print("unknown selftest")
    return 2
