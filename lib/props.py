"""Per-property configuration of the checks: batches, budgets, evidence texts."""

ALL_LIB = ["io", "tokenizers", "tokenizers/generic", "tokenizers/utilities", "calculator", "calculator/parsers",
           "calculator/tokenizers", "calculator/functions", "calculator/variables", "variants", "csv", "mustache",
           "mustache/parsers", "mustache/tokenizers"]


def one(runs_q, runs_t, **kw):
    d = {"quick": {"batches": [dict(name="histories", runs=runs_q, wall=120, recheck=300)], "minimise_wall": 30},
         "thorough": {"batches": [dict(name="histories", runs=runs_t, wall=1500, recheck=2000)], "minimise_wall": 120}}
    d.update(kw)
    return d


PROPS = {
    "C11": one(
        120_000, 6_000_000,
        anchor_files=["io/StringScanner.go"],
        rule="A case is one history on one StringScanner: content of 0-12 characters over {a, b, LF, CR, e-acute, U+1F600} "
             "and 1-40 operations from read/unread/unreadmany/peek/peekline/peekcol/line/col/reset generated in biased phases. "
             "Non-trivial: at least 3 operations of which at least one moves the cursor. Distinct: hash of (content, operation list).",
        state_measure="distinct (content class over {.,L,C}, cursor k, line, column) tuples observed after an operation",
        probes=["unread_at_start", "unread_from_end_slot", "unread_cr_before_lf", "read_end_slot", "read_past_end",
                "unreadmany_beyond_start"],
        real=["io.StringScanner (instrumented copy of the working tree)"],
        stub=[],
        assumptions=["the reference is a cursor model written from the property text; Line/Column are compared with a fresh "
                     "StringScanner read forward to the same cursor, as the property words it",
                     "fault kinds: none exist at this surface (in-memory scanner, no I/O)"],
    ),
}
