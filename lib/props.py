"""Per-property configuration of the checks: batches, budgets, evidence texts."""

ALL_LIB = ["io", "tokenizers", "tokenizers/generic", "tokenizers/utilities", "calculator", "calculator/parsers",
           "calculator/tokenizers", "calculator/functions", "calculator/variables", "variants", "csv", "mustache",
           "mustache/parsers", "mustache/tokenizers"]


def one(runs_q, runs_t, **kw):
    d = {"quick": {"batches": [dict(name="histories", runs=runs_q, wall=120, recheck=300)], "minimise_wall": 30},
         "thorough": {"batches": [dict(name="histories", runs=runs_t, wall=1500, recheck=2000)], "minimise_wall": 120}}
    d.update(kw)
    return d


PROPS = {
    "C11": one(
        120_000, 12_000_000,
        anchor_files=["io/StringScanner.go"],
        rule="A case is one history on one StringScanner: content over {a, b, LF, CR, e-acute, U+1F600, U+010A, U+010D, U+1F60A, U+FF0D (low byte like a line break), U+2028, U+0085, VT, U+0100} "
             "of 0-12 characters (x size class; rare shapes: lengths around 256/1024/2048 dense in line breaks, one line of 65535-70000 columns, raw bytes that are not "
             "well-formed UTF-8) and 1-40 operations from read/unread/unreadmany/peek/peekline/peekcol/line/col/reset generated in biased phases "
             "(also reads of n characters in one step); a second live scanner is used in between. Observation per run after every operation, every "
             "k-th, or only at the end. Non-trivial: at least 3 operations of which at least one moves the cursor. Distinct: hash of (content, operation list).",
        state_measure="distinct (content class over {.,L,C}, cursor k, line, column) tuples observed after an operation",
        probes=["unread_at_start", "unread_from_end_slot", "unread_cr_before_lf", "read_end_slot", "read_past_end",
                "unreadmany_beyond_start"],
        real=["io.StringScanner (instrumented copy of the working tree)"],
        stub=[],
        assumptions=["the reference is a cursor model written from the property text; Line/Column are compared with a fresh "
                     "StringScanner read forward to the same cursor, as the property words it",
                     "contents that are not well-formed UTF-8 contain stray single bytes only (lead byte without continuation, 0xFF, lone continuation "
                     "byte), whose characters are the same under Go's conversion (one U+FFFD per offending byte) and under maximal-subpart substitution; "
                     "truncated multi-byte prefixes, where legal decoders differ, are not generated",
                     "fault kinds: none exist at this surface (in-memory scanner, no I/O)"],
    ),
    "C17": one(
        40_000, 8_000_000,
        anchor_files=["tokenizers/utilities/CharReferenceMap.go", "tokenizers/utilities/CharReferenceInterval.go"],
        rule="A case is one history of 1-30 (x size class) AddInterval / AddDefaultInterval / Clear / Lookup operations on one of: a raw CharReferenceMap, "
             "a tokenizer's character-state table (marker states; each probe character is also really tokenized), a word state's word characters, "
             "a whitespace state's whitespace characters. Endpoints: {0,'a',0xFF,0x100,0x101,0x2000,0xFFFE} and neighbours, powers of two 2^6..2^16 +-1, "
             "characters text processing likes to special-case (U+FEFF, U+FFFD, U+200B, U+00A0, U+2028, ...), random, or relative to earlier endpoints; "
             "references A, B, an uncomparable C, none. On the tokenizer target also: a registration (state A/B, none, clear all) made by a state from inside "
             "its NextToken while the tokenizer skips that state's token, followed by more of the same character. Observation per run: after every "
             "operation, every k-th, or only at the end; an observation looks up the boundary set, the endpoints of the last 6 registrations +-2, "
             "single-bit flips of the latest endpoints, and periodically the powers of two and the special characters. "
             "Non-trivial: at least 3 operations with at least 2 registrations/clears. Distinct: hash of (target, operation list).",
        state_measure="distinct vectors (model answer for each of the 19 probe characters, target)",
        probes=["range_spans_boundary", "unregister_above_0x100", "word_split_checked", "registration_made_while_tokenizing"],
        real=["utilities.CharReferenceMap", "tokenizers.AbstractTokenizer.Set/GetCharacterState", "generic.GenericWordState", "generic.GenericWhitespaceState"],
        stub=[],
        assumptions=["model: list of registrations, newest covering one wins, a nil reference un-registers",
                     "fault kinds: none exist at this surface"],
    ),
    "C16": one(
        60_000, 20_000_000,
        anchor_files=["tokenizers/generic/SymbolNode.go", "tokenizers/generic/SymbolRootNode.go", "tokenizers/generic/GenericSymbolState.go"],
        rule="A case is one history of 2-24 (x size class) interleaved Add(symbol, own type) and read operations on one SymbolRootNode or GenericSymbolState: "
             "symbols of length 1-3 (up to 12 in large runs) over {<,=,>,!,lambda} biased to share prefixes, 4% with bytes that are not well-formed UTF-8; "
             "inputs that are a registered symbol, a symbol cut short, a symbol plus a tail, or random, 6% of them with one character's bit 8 / 16 / 17 flipped; "
             "a third of the runs pass a tokenizer that is busy with a stream of its own as second argument; after an Add (per run: every one, every k-th, "
             "only at the end) all symbols registered so far are read back. Non-trivial: at least 3 operations, at least one Add and two reads. "
             "Distinct: hash of (target, operation list).",
        state_measure="distinct (number of registered symbols, symbol read, previously read symbol) triples",
        probes=["input_ends_inside_symbol", "unregistered_proper_prefix", "symbols_read_in_sequence"],
        real=["generic.SymbolRootNode", "generic.SymbolNode", "generic.GenericSymbolState", "io.StringScanner"],
        stub=[],
        assumptions=["model: map symbol -> type; a read returns the longest registered prefix, else the next single character as a plain symbol",
                     "every symbol has one fixed type of its own (re-registering a symbol with another type is not generated)",
                     "symbols and inputs that are not well-formed UTF-8 contain stray single bytes only (0xFF, 0xC3, 0x80) and are compared as the character "
                     "sequences these give under any usual decoder (two different byte strings with the same character sequence are one symbol)",
                     "fault kinds: none exist at this surface (end of input inside a symbol is an input, not a fault)"],
    ),
    "C20": one(
        60_000, 30_000_000,
        anchor_files=["variants/Variant.go"],
        rule="A case is one history of 2-24 (x size class) operations over 4 variant handles and 2 caller-owned slices (with and without spare capacity): construct "
             "from each host type (int, int32, uint, uint32, int64, float32, float64, bool, string, time.Time, time.Duration, []*Variant, *Variant, Variant by value, "
             "nil, struct, []int, map, fixed-size array, pointer, typed nil pointer, nil *Variant, function, ...), typed setters, SetAsObject, SetAsArray followed by mutation of or appends to the "
             "caller's slice, SetByIndex within and past the end, SetLength, Assign, Clone, Clear, in-place change of an element object, one element object at two "
             "positions, nested rows (one row twice, clone, near-copy), nesting up to 200 deep, Equals in both directions; observation per run after every "
             "operation, every k-th, or only at the end: every handle is read back (Type, typed accessor, Length, GetByIndex, IsNull). Non-trivial: at least "
             "3 operations including an in-place mutation. Distinct: hash of the operation list.",
        state_measure="distinct vectors (type, array length, number of alias edges) over the 4 handles",
        probes=["caller_slice_mutated", "setbyindex_past_end", "clone_of_array", "equals_on_arrays", "mutate_with_alias_edges", "element_mutated_in_place", "nested_deeper_than_60", "nil_element_written", "caller_slice_appended", "element_object_twice_in_one_array"] + ["host_" + h for h in
               ["int", "int32", "uint", "uint32", "int64", "float32", "float64", "bool", "string", "time", "duration", "array", "variant", "nil", "struct", "slice", "map", "goarray", "structslice", "ptr", "ifacestruct", "func", "variantvalue", "nilptr", "nilvariant"]],
        real=["variants.Variant"],
        stub=[],
        assumptions=["value model with explicit aliasing: only clones and list setters must be independent; Assign and construction from another "
                     "variant may share a list (not asserted either way); a mutation of the original is not asserted to leave the clone alone, "
                     "only the direction the property states",
                     "element objects are tracked by identity; a slot whose object was changed in place through another holder is not asserted "
                     "(a shallow and a deep copy are both allowed there)",
                     "fault kinds: none exist at this surface"],
    ),
    "C19": dict(
        quick={"batches": [dict(name="plain-build schedules (result, snapshot, repeatability oracles)", runs=30_000, wall=150, recheck=300),
                           dict(name="race-build schedules (race detector armed, sync-ignored hand-off)", runs=6_000, wall=150, recheck=100, race=True),
                           dict(name="race-build cold starts: 8 runs per short-lived process, concurrent phase first (first-use races of lazily initialised shared state)",
                                runs=2_400, wall=150, recheck=50, race=True, chunk=8, args=["-sim.order", "conc-first"])],
               "minimise_wall": 40},
        thorough={"batches": [dict(name="plain-build schedules (result, snapshot, repeatability oracles)", runs=1_200_000, wall=1500, recheck=2000),
                              dict(name="race-build schedules (race detector armed, sync-ignored hand-off)", runs=200_000, wall=1500, recheck=500, race=True),
                              dict(name="race-build cold starts: 8 runs per short-lived process, concurrent phase first (first-use races of lazily initialised shared state)",
                                   runs=48_000, wall=1500, recheck=200, race=True, chunk=8, args=["-sim.order", "conc-first"])],
                  "minimise_wall": 180},
        race=True,
        anchor_files=["calculator/ExpressionCalculator.go", "calculator/CalculationStack.go", "variants/AbstractVariantOperations.go",
                      "variants/Variant.go", "mustache/MustacheTemplate.go", "tokenizers/generic/SymbolNode.go"],
        rule="A case is one plan plus its executed schedule: one parsed ExpressionCalculator or MustacheTemplate shared by 2-4 tasks, each with two "
             "private variable sets and 1-4 evaluations, or 2-4 tasks each constructing and using its own calculator, template, generic / expression / "
             "CSV / mustache tokenizer; tasks are real goroutines run one at a time by a seeded scheduler (policies uniform, sticky, round-robin, PCT, "
             "starve-one; quanta of 1-400 yield steps) that can switch between any two statements of the library. Motifs drawn into shared-calculator runs: a caller-supplied "
             "function that fails or panics by its argument (panic values include typed nil errors, values whose Error()/String() panic, runtime errors, structs), "
             "per-task function collections that disagree about a name, a variable whose Value() is nil referenced where its value is never looked at, a string "
             "variable compared with a time span / date / number / boolean whose values over the variable sets are texts equal up to letter case or blanks that do "
             "not convert alike ('1h' / '1H'), a variable holding an Object (a value of the caller's own type) as left operand of =, <>, IN, and (0.6 % of these runs) 130-320 tasks with one evaluation each under round-robin with a quantum of 1-6 steps, so "
             "that all are in flight at once. Also without a schedule: one instance evaluated 3-10 times in a row with its default variables and explicit sets in a seeded order (templates with "
             "three orders of the setters: automatic variables off before SetTemplate, or on with the caller's default map handed over afterwards, complete or lacking a name), and one template rendered under seeded map iteration orders. Non-trivial: at least one context "
             "switch happened while tasks were inside library code (scheduled scenarios) or at least 3 evaluations (sequential ones). Distinct: hash of (scenario, setup, tasks, executed schedule).",
        state_measure="not applicable (no model state: evaluation is compared with the sequential result); see distinct_schedules and distinct_switch_site_pairs",
        probes=["scenario_shared-calculator", "scenario_shared-template", "scenario_separate", "scenario_map-order-repeat", "map_order_case_colliding", "order_conc_first", "scenario_sequential-repeat", "variables_edited_between_evaluations"],
        real=["every library package (instrumented copy): calculator, parsers, tokenizers, functions, variables, variants, mustache, csv, io"],
        stub=["none: variable collections and maps are the library's own types filled by the harness"],
        assumptions=["the hand-off between scheduler and tasks is hidden from the race detector with runtime.RaceDisable, so tasks look unsynchronised "
                     "although exactly one runs at a time; synchronisation performed by the library or by fmt/strconv inside it stays visible",
                     "race reports count only when both innermost frames are library code; a report in harness code is exit 2",
                     "clock and random functions are excluded from these workloads (their results legitimately differ); maps with keys that differ "
                     "by case only are excluded (unowned map iteration order)",
                     "fault kinds: none are injected in this check; the explored space is the schedule"],
    ),
    "C05": one(
        12_000, 400_000,
        anchor_files=["tokenizers/generic/SymbolNode.go", "tokenizers/AbstractTokenizer.go", "mustache/tokenizers/MustacheTokenizer.go",
                      "calculator/parsers/ExpressionParser.go", "calculator/ExpressionCalculator.go", "mustache/parsers/MustacheParser.go"],
        rule="A case is a set of 1-3 reused instances (generic / expression / CSV / mustache tokenizer, expression parser, mustache parser, "
             "calculator, template; seeded option flags), each with a history of 2-12 steps, interleaved at yield points by the seeded scheduler. "
             "A step is an input (80% from a pool holding every registered multi-character symbol, every token class, unterminated and malformed "
             "inputs, Latin-1 and non-Latin text; 20% generated; a quarter of all inputs then lexically damaged - a character deleted or doubled, a lexeme that "
             "opens, closes or empties an element inserted, a letter replaced by its one-way Unicode case twin, the input cut short; 15% are such a near-twin of an "
             "earlier input of the same history, in either order) plus a consumption mode (TokenizeBuffer, TokenizeStream over a wrapped scanner, "
             "SetReader + NextToken loop with 0-3 HasNextToken calls before each fetch) and, in fault runs, a fault at a seam (scanner panics at "
             "call k, stream ends after k characters, consumer abandons after j tokens, operations manager / variable / function delegate fails, a function that "
             "calls back into the calculator that is calling it). Calculators are also evaluated through their own default collections, after the default "
             "functions were edited (a standard function replaced or removed) or the default variables emptied, with and without setting the expression (or the "
             "calculator's own current text) again; parsers, calculators and templates are also given token lists: the parser's own, one token, the first two "
             "glued, or what a tokenizer in its default configuration gives (blanks, comments, Eof); CSV tokenizers are also "
             "reconfigured through their getters (list read, changed in place, handed back) - the fresh reference gets the resulting list through a plain setter call. "
             "The first two steps of the first instance sweep ordered pairs of the pool. Every step is compared with a fresh instance given the "
             "same step and, for pool inputs without fault, with the result computed at process start. Non-trivial: at least two steps. "
             "Distinct: hash of (tasks, executed schedule, fault switch).",
        state_measure="distinct (instance kind, previous input, current input, consumption mode, fault kind) tuples - ordered input pairs covered",
        fault_kinds=["fail_at", "eof_at", "abandon_after", "op_error", "var_missing", "fn_error", "fn_panic", "fn_error_plain", "fn_both", "fn_reenter"],
        probes=["pristine_compared"],
        real=["all tokenizers, parsers, ExpressionCalculator, MustacheTemplate (instrumented copy)"],
        stub=["SimScanner (pass-through io.StringScanner that counts calls, ends early or panics at call k)", "SimOps (pass-through operations manager failing at call n)",
              "SimVariables (pass-through collection hiding one name)", "Faulty / PlainFaulty functions"],
        assumptions=["a step under a fault is compared with a fresh instance under the same fault (call index resolved against a fault-free dry run)",
                     "default variables legitimately accumulate over a history; steps through the default collections set every variable of the step's set to its value first",
                     "panics of the library inside a step are compared like results (same on fresh instance) and counted as observations; they are C03's business"],
    ),
    "C18": one(
        60_000, 10_000_000,
        anchor_files=["calculator/variables/VariableCollection.go", "calculator/functions/FunctionCollection.go", "calculator/ExpressionCalculator.go",
                      "mustache/MustacheTemplate.go", "calculator/parsers/ExpressionParser.go", "mustache/parsers/MustacheParser.go"],
        rule="A case is one history: (a) 3-30 (x size class) operations (Add, Get, GetAll + mutation of the returned slice, FindIndexByName, FindByName, Locate, Remove, "
             "RemoveByName, Clear, ClearValues, SetValue, change of a value object in place; names that collide case-insensitively, among them case pairs whose "
             "two cases differ in UTF-8 length and names containing format verbs) on a VariableCollection or FunctionCollection against an "
             "ordered-list model, or (b) 2-12 operations on one calculator / template: SetExpression / SetTemplate with generated text whose identifier "
             "roles the generator knows (variables, quoted identifiers - also ones spelled like keywords and constants -, functions, keywords in random case, string constants, comments, section words), "
             "SetAutoVariables, edits and removals in the default collection, Evaluate, EvaluateUsingVariables with one name left out. Observation per run "
             "after every operation, every k-th, or only at the end. Non-trivial: at least 3 operations with at least one state change. "
             "Distinct: hash of (scenario, operation list).",
        state_measure="distinct (scenario, size of the model collection, auto-variables flag, operation) tuples",
        fault_kinds=[],
        probes=["getall_mutated", "case_insensitive_hit", "first_added_wins_checked", "auto_variables_applied", "default_variable_removed",
                "var_not_found_named", "func_not_found_named", "default_function_wins_checked", "custom_function_resolved", "second_calculator_called", "calculator_cleared", "function_removed_by_index", "value_object_changed_in_place"],
        real=["variables.VariableCollection", "functions.FunctionCollection", "ExpressionCalculator", "ExpressionParser", "MustacheTemplate", "MustacheParser"],
        stub=["recordingCollection (a VariableCollection whose FindByName finds nothing, to read the calculator's discovered names in order)"],
        assumptions=["discovery is checked only for generated inputs whose identifier roles are known to the generator",
                     "an evaluation is required to fail with a not-found error only for 'simple' generated expressions that cannot fail for another reason; "
                     "for all expressions a VAR_NOT_FOUND error must name a variable that really is missing",
                     "fault kinds: missing variable / function only (modelled as operations of the history)"],
    ),
    "C03": dict(
        quick={"batches": [dict(name="fault-injecting histories", runs=16_000, wall=150, recheck=300, args=["-sim.faults", "on"]),
                           dict(name="fault-free histories under the same monitor", runs=8_000, wall=150, recheck=200, args=["-sim.faults", "off"])],
               "minimise_wall": 30},
        thorough={"batches": [dict(name="fault-injecting histories", runs=5_000_000, wall=1500, recheck=2000, args=["-sim.faults", "on"]),
                              dict(name="fault-free histories under the same monitor", runs=2_000_000, wall=1500, recheck=1000, args=["-sim.faults", "off"])],
                  "minimise_wall": 120},
        anchor_files=["calculator/functions/DelegatedFunction.go", "calculator/ExpressionCalculator.go", "tokenizers/AbstractTokenizer.go",
                      "calculator/parsers/ExpressionParser.go", "mustache/parsers/MustacheParser.go", "mustache/MustacheTemplate.go"],
        rule="A case is one history of 2-12 steps on one reused instance (tokenizers, parsers, calculator, template; inputs from the C05 pool, the "
             "expression/template generators and calls of the 37 built-in functions with literal arguments; a quarter lexically damaged as in C05: empty and unclosed "
             "elements, one-way case twins, cuts), most steps carrying a fault at a seam: "
             "the scanner panics at call k or ends after k characters, the consumer abandons after j tokens, the function delegate returns an error (several Go "
             "types and texts), returns an error together with a result, panics (texts, errors, typed nil errors, values whose Error()/String() panic, runtime "
             "errors, structs, uncomparable values) or calls back into the calculator that is calling it, a variable is missing, the operations manager fails at call n (indices resolved against a fault-free dry run, so the fault lands "
             "inside the operation). A second batch runs the same generators without faults under the same monitor. Non-trivial: at least one fault "
             "fired inside an operation. Distinct: hash of (task, fault switch).",
        state_measure="distinct (instance kind, consumption mode, fired fault kind, outcome kind) tuples",
        fault_kinds=["fail_at", "eof_at", "abandon_after", "op_error", "var_missing", "fn_error", "fn_panic", "fn_error_plain", "fn_both", "fn_reenter", "state_nil", "state_empty"],
        probes=["fault_free_runs"],
        real=["all tokenizers, parsers, ExpressionCalculator, MustacheTemplate, DefaultFunctionCollection (instrumented copy)"],
        stub=["SimScanner", "SimOps", "SimVariables", "Faulty / PlainFaulty functions (pass-through except where a fault is scheduled)"],
        not_decided="'For every input string': inputs are those the history and fault workloads need (pool + generators); there is no fuzzer and no "
                    "enumeration here, so a panic that needs a particular malformed input may be missed. Decided: every call in these workloads "
                    "returns normally with exactly one of result / error, fired faults surface as errors, a failing scanner's panic propagates "
                    "unchanged, every operation ends within 10^6 yield steps, a tokenization returns at most characters+1 tokens.",
        assumptions=["a custom scanner can signal an I/O failure only by panicking (the IScanner interface has no error result); that panic is the "
                     "one panic allowed to leave a tokenizer",
                     "liveness is a step budget of 10^6 yield steps per operation, three orders of magnitude above what the workloads need"],
    ),
    "C08": dict(
        quick={"batches": [dict(name="synctest bubbles: simulated clock with jumps, seeded PRNG, per-run zone, seam calls", runs=24_000, wall=150, recheck=300)],
               "minimise_wall": 30},
        thorough={"batches": [dict(name="synctest bubbles: simulated clock with jumps, seeded PRNG, per-run zone, seam calls", runs=2_000_000, wall=1500, recheck=2000)],
                  "minimise_wall": 120},
        clock=True,
        anchor_files=["calculator/functions/DefaultFunctionCollection.go", "calculator/functions/DelegatedFunction.go", "calculator/functions/FunctionCollection.go"],
        rule="A case is one run inside a testing/synctest bubble: 1-3 tasks with 1-6 operations each - Now(), Ticks(), Rnd()/Random() (1-5 draws), "
             "Date(y,m,d[,h,mi,s]), DayOfWeek(Date(y,m,d)), a call of one of the 37 registered names in random letter case with 0-8 seeded arguments of "
             "every variant type, a delegate that panics (with a text, an error, a typed nil error, a value whose Error()/String() panics, a runtime error, a "
             "struct, an uncomparable value), removals from and additions to another default collection while this task's own added functions must stay its own "
             "- each called either through IFunction.Calculate or through an expression; the scheduler "
             "interleaves the tasks at yield points and advances the fake clock by 0, 1 ns, 999 ms, 1 s, 1 h, 36 h, 400 d or 30 y before resuming a task "
             "(also in the middle of an evaluation); time.Local is a fixed zone between -12 h and +14 h or (30%) a named zone with daylight saving from the embedded tzdata, with dates biased to transition days; one run in 500 makes 2 million Rnd() draws. Non-trivial: a clock- or zone-dependent call "
             "was checked or a function was called through the seam. Distinct: hash of (tasks, configuration, executed schedule with jumps).",
        state_measure="distinct (zone offset, number of tasks, number of clock/zone dependent checks) triples",
        fault_kinds=["delegate_panic"],
        probes=["clock_jump_inside_evaluation", "now_after_long_jump", "date_in_non_utc_zone", "date_in_dst_zone", "now_within_two_hours_after_a_zone_transition", "rnd_draws", "rnd_bulk_ops", "foreign_collection_customised", "delegate_panic", "seam_calls"] +
               ["fn_" + n.lower() for n in ["Ticks", "TimeSpan", "Now", "Date", "DayOfWeek", "Min", "Max", "Sum", "If", "Choose", "E", "Pi", "Rnd", "Random",
                "Abs", "Acos", "Asin", "Atan", "Exp", "Log", "Ln", "Log10", "Ceil", "Ceiling", "Floor", "Round", "Trunc", "Truncate", "Cos", "Sin", "Tan",
                "Sqr", "Sqrt", "Empty", "Null", "Contains", "Array"]],
        real=["DefaultFunctionCollection, DelegatedFunction, FunctionCollection, ExpressionCalculator (instrumented copy)", "Go runtime clock replaced by the synctest bubble clock",
              "math/rand global source seeded by GODEBUG=randautoseed=0"],
        stub=["a panicking delegate 'Boom' registered next to the defaults"],
        not_decided="That Min, Max, Sum, If, Choose, Abs, Ceil ... compute the value their names denote, which arities are the valid ones, and that a wrong "
                    "argument is never silently substituted: pure functions of the argument list. Decided: Now/Ticks lie in the simulated call interval, "
                    "Rnd in [0,1), Date/DayOfWeek read back in the run's zone, every registered name is found in any letter case and returns exactly one "
                    "of result / error, a panicking delegate gives an error.",
        assumptions=["synctest time only moves forward; backward clock jumps are not simulated",
                     "Date arguments are kept in their normal ranges (day <= 28), so normalisation of out-of-range fields is not exercised"],
    ),
}
