#!/usr/bin/env python3
"""Validates MANIFEST.json and every evidence file against the schemas (needs jsonschema: run with python3-vt)."""
import json, glob, sys, jsonschema
ok = True
jsonschema.validate(json.load(open('/verif/MANIFEST.json')), json.load(open('/root/.vp/MANIFEST.schema.json')))
es = json.load(open('/root/.vp/EVIDENCE.schema.json'))
for f in sorted(glob.glob('/verif/evidence/*.json')):
    try:
        jsonschema.validate(json.load(open(f)), es)
    except Exception as e:
        ok = False
        print("INVALID", f, str(e)[:300])
m = json.load(open('/verif/MANIFEST.json'))
ids = [c['property_id'] for c in m['checks']] + [n['property_id'] for n in m.get('not_applicable', [])]
props = [json.loads(l)['id'] for l in open('/verif/properties.jsonl')]
print("manifest covers", sorted(ids), "missing", sorted(set(props) - set(ids)))
print("ok" if ok else "FAILED")
sys.exit(0 if ok else 1)
