#!/usr/bin/env python3
"""try_seeded.py <agent-dir> <property> [tier]: confirm each patchN/demoN of a sub-agent's OUT directory in a scratch clone
(existing suite passes with the patch, demo fails with it and passes without), run the property's check against it, and
store the change under /verif/seeded/<property>-<name>-N/ with meta.json."""
import json, os, shutil, subprocess, sys, tempfile, glob, time

agent, prop = sys.argv[1], sys.argv[2]
tier = sys.argv[3] if len(sys.argv) > 3 else "quick"
name = os.environ.get("NAME") or os.path.basename(agent.rstrip("/"))
env = dict(os.environ, GOFLAGS="-mod=mod", GOPROXY="off", GOSUMDB="off")
out = os.path.join(agent, "OUT")
only = os.environ.get("ONLY")
for patch in sorted(glob.glob(os.path.join(out, "patch*.diff"))):
    n = os.path.basename(patch)[5:-5]
    if only and n not in only.split(","):
        continue
    demo = os.path.join(out, "demo%s_test.go" % n)
    notes = os.path.join(out, "notes%s.md" % n)
    scratch = tempfile.mkdtemp(prefix="verif-seeded-")
    try:
        repo = os.path.join(scratch, "repo")
        subprocess.run(["git", "clone", "-q", "/repo", repo], check=True)
        os.makedirs(os.path.join(repo, "zz_demo"))
        shutil.copy(demo, os.path.join(repo, "zz_demo", "demo_test.go"))
        race = "-race" in open(demo).read() or "race" in (open(notes).read().lower() if os.path.exists(notes) else "")
        demo_src = open(demo).read()
        tags = ["-tags", "seeddemo"] if "go:build seeddemo" in demo_src else []
        gobin, denv = "go", env
        if "testing/synctest" in demo_src:
            gobin, denv = "go1.26.8", dict(env, GOTOOLCHAIN="local")
        def run_demo():
            cmd = [gobin, "test", "-vet=off", "-count=1"] + tags + (["-race"] if race else []) + ["./zz_demo/"]
            return subprocess.run(cmd, cwd=repo, env=denv, capture_output=True, text=True, timeout=600)
        clean = run_demo()
        a = subprocess.run(["git", "apply", patch], cwd=repo, capture_output=True, text=True)
        if a.returncode != 0:
            print("%s patch%s: does not apply: %s" % (name, n, a.stderr[:200])); continue
        build = subprocess.run(["go", "build", "./..."], cwd=repo, env=env, capture_output=True, text=True)
        suite = subprocess.run(["go", "test", "-vet=off", "-count=1", "./test/..."], cwd=repo, env=env, capture_output=True, text=True)
        broken = run_demo()
        ok = clean.returncode == 0 and build.returncode == 0 and suite.returncode == 0 and broken.returncode != 0
        shutil.rmtree(os.path.join(repo, "zz_demo"))
        ev = os.path.join(scratch, "evidence"); rp = os.path.join(scratch, "replays")
        e = dict(os.environ, VERIF_REPO=repo, VERIF_EVIDENCE_DIR=ev, VERIF_REPLAY_DIR=rp)
        t0 = time.time()
        c = subprocess.run(["/verif/check", prop, tier], env=e, capture_output=True, text=True)
        open("/tmp/try_seeded_last.out", "w").write(c.stdout + "\n--- stderr ---\n" + c.stderr)
        caught = c.returncode == 1 and ("VIOLATION property=%s" % prop) in c.stdout
        classes = [l.split(": ", 1)[1] for l in c.stdout.splitlines() if l.startswith("violation class:")]
        print("%s patch%s: demo clean=%s, suite with patch=%s, demo with patch=%s => %s; check %s %s: %s (rc=%d, %.0fs) %s" % (
            name, n, "pass" if clean.returncode == 0 else "FAIL", "pass" if suite.returncode == 0 else "FAIL",
            "fails" if broken.returncode != 0 else "PASSES", "confirmed" if ok else "NOT CONFIRMED", prop, tier,
            "CAUGHT" if caught else "MISSED", c.returncode, time.time() - t0, classes[:3]))
        if not caught:
            print(c.stdout[-600:], c.stderr[-600:])
        dest = "/verif/seeded/%s-%s-%s" % (prop, name, n)
        if ok:
            os.makedirs(dest, exist_ok=True)
            shutil.copy(patch, os.path.join(dest, "patch.diff"))
            shutil.copy(demo, os.path.join(dest, "demo_test.go"))
            if os.path.exists(notes):
                shutil.copy(notes, os.path.join(dest, "notes.md"))
            meta = {"property": prop, "source": "sub-agent given only the property text and a scratch worktree",
                    "needs_to_manifest": (open(notes).read()[:1500] if os.path.exists(notes) else ""),
                    "confirmed": {"existing_suite_passes_with_patch": True, "demo_fails_with_patch": True, "demo_passes_without_patch": True,
                                  "demo_run_with_race_detector": race,
                                  "how": "scratch clone of /repo; demo copied to ./zz_demo; go test -vet=off -count=1 ./test/... and ./zz_demo/"},
                    "check_result": {"command": "VERIF_REPO=<scratch clone with patch> ./check %s %s" % (prop, tier), "caught": caught,
                                     "violation_classes": classes, "seconds": round(time.time() - t0, 1)}}
            json.dump(meta, open(os.path.join(dest, "meta.json"), "w"), indent=1)
    finally:
        shutil.rmtree(scratch, ignore_errors=True)
