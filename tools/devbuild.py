#!/usr/bin/env python3
"""Developer helper: build the simulator against /repo into a given directory and keep it (checks never use this)."""
import sys, os, shutil, importlib.machinery, importlib.util
sys.path.insert(0, "/verif/lib")
loader = importlib.machinery.SourceFileLoader("check", "/verif/check")
spec = importlib.util.spec_from_loader("check", loader)
check = importlib.util.module_from_spec(spec)
loader.exec_module(check)
dest = sys.argv[1]
race = len(sys.argv) > 2 and sys.argv[2] == "race"
b = check.Build(race=race)
if os.path.exists(dest):
    shutil.rmtree(dest)
shutil.move(b.dir, dest)
print(dest)
