module verif/yieldinstr

go 1.21
