#!/usr/bin/env python3
"""try_benign.py <agent-dir> <prop,prop,...>: applies each property-preserving patchN of a sub-agent's OUT directory to a
scratch clone and runs the quick tier of the named checks: every one must exit 0 (a false alarm otherwise). Stores the
patch under /verif/benign/<name>-N/ with meta.json."""
import json, os, shutil, subprocess, sys, tempfile, glob, time
agent, props = sys.argv[1], sys.argv[2].split(",")
name = os.environ.get("NAME") or os.path.basename(agent.rstrip("/"))
only = os.environ.get("ONLY")
env = dict(os.environ, GOFLAGS="-mod=mod", GOPROXY="off", GOSUMDB="off")
for patch in sorted(glob.glob(os.path.join(agent, "OUT", "patch*.diff"))):
    n = os.path.basename(patch)[5:-5]
    if only and n not in only.split(","):
        continue
    scratch = tempfile.mkdtemp(prefix="verif-benign-")
    try:
        repo = os.path.join(scratch, "repo")
        subprocess.run(["git", "clone", "-q", "/repo", repo], check=True)
        a = subprocess.run(["git", "apply", patch], cwd=repo, capture_output=True, text=True)
        if a.returncode != 0:
            print("%s patch%s: does not apply: %s" % (name, n, a.stderr[:200])); continue
        suite = subprocess.run(["go", "test", "-vet=off", "-count=1", "./test/..."], cwd=repo, env=env, capture_output=True, text=True)
        results = {}
        for prop in props:
            e = dict(os.environ, VERIF_REPO=repo, VERIF_EVIDENCE_DIR=os.path.join(scratch, "evidence"), VERIF_REPLAY_DIR=os.path.join(scratch, "replays"))
            t0 = time.time()
            c = subprocess.run(["/verif/check", prop, "quick"], env=e, capture_output=True, text=True)
            classes = [l.split(": ", 1)[1] for l in c.stdout.splitlines() if l.startswith("violation class:")]
            results[prop] = {"exit": c.returncode, "classes": classes, "seconds": round(time.time() - t0, 1)}
            if c.returncode != 0:
                print("%s patch%s: check %s exit %d %s" % (name, n, prop, c.returncode, classes[:4]))
                open("/tmp/try_benign_%s_%s_%s.out" % (name, n, prop), "w").write(c.stdout + "\n--- stderr ---\n" + c.stderr)
                for f in glob.glob(os.path.join(scratch, "replays", "*.json"))[:3]:
                    shutil.copy(f, "/tmp/try_benign_%s_%s_%s_%s" % (name, n, prop, os.path.basename(f)))
        quiet = all(r["exit"] == 0 for r in results.values())
        print("%s patch%s: suite %s; checks %s => %s" % (name, n, "pass" if suite.returncode == 0 else "FAIL",
              " ".join("%s=%d" % (p, r["exit"]) for p, r in results.items()), "QUIET" if quiet else "ALARM"))
        dest = "/verif/benign/%s-%s" % (name, n)
        os.makedirs(dest, exist_ok=True)
        shutil.copy(patch, os.path.join(dest, "patch.diff"))
        notes = os.path.join(agent, "OUT", "notes%s.md" % n)
        if os.path.exists(notes):
            shutil.copy(notes, os.path.join(dest, "notes.md"))
        json.dump({"kind": "property-preserving change written by a sub-agent that saw only the property texts",
                   "existing_suite_passes": suite.returncode == 0, "checks": results}, open(os.path.join(dest, "meta.json"), "w"), indent=1)
    finally:
        shutil.rmtree(scratch, ignore_errors=True)
